"""C17 - ill-typed programs are rejected.

T1  no type error is dropped: every Result<_, TypeErrors|TypeError> produced in the checker reaches a sink
T2  every kind of type error is constructed, and the rule-specific ones in the arm that owns the rule
T3  typing obligations per construct: the arm calls the listed checkers on every accepting path
T4  binding patterns (let, for, for-join) are shown irrefutable before the statement is accepted
T5  recursion guard: tested before, set around, cleared after the body is checked
T6  scoping: pushes and pops balance on accepting paths; every match clause is checked in its own scope
T10 as_concrete_type looks every name a type mentions up (struct / enum names, consts used as array sizes) on every accepting path
T13 struct literals / patterns: a duplicated field is reported and the search for missing fields lies on every accepting path
T14 exhaustiveness: the sub-patterns of a struct pattern are aligned with the definition's fields by name (fields behind `..` are wildcards)
T15 number / range patterns are compared with min() / max() of the matched number type on every accepting path
T16 type definitions: duplicated struct fields are rejected; self-containing struct / enum definitions are rejected before any function body is checked
T17 const definitions: the declared type is resolved before it is registered; a value provided by a party is registered with one type
T19 the parser reports a second top-level definition of the same name (const / struct / enum / fn) instead of replacing the first
T21 number literals (and range bounds) that nothing gave a type are compared with the 32-bit bounds before the function is accepted
T20 the arity test of a call compares the parameter count with a list holding one entry per written argument (never a list filled under zip)
T12 a block takes the type of its last statement only (assigned on the `index == len - 1` edge, or afresh for every statement)
T11 max / min / + / - const expressions are only accepted for consts whose declared type is examined (numeric)
T9  const expressions are checked against the consts defined before them (a local map filled in source order), never against the
    program's complete definition map (the compiler resolves consts in source order)
T8  after a `!=` comparison found two types to differ, every path to acceptance constructs a type error or calls a rejecting checker
T7  check_type accepts only on the equal edge of its comparison; unify accepts only after `==` or after testing both operand types
"""
import re

from .. import mir
from ..core import AnchorMissing, Finding, RuleResult
from . import C14

PROPERTY = "C17"
TECHNIQUE = ("origin analysis of error results (aggregate- and closure-aware) on MIR, variant-pruned must-pass-through tables for typing "
             "obligations, scope-depth dataflow, loop-membership of scope operations")
LEVEL_TEXT = (
    "Decides whether each static rule is enforced at every arm where it applies and whether an error, once found, can be lost: "
    "(T1) every call in check.rs that returns Result<_, TypeErrors|TypeError> has its Err payload reach `?`, an error vector, the "
    "return value or the memo of checked functions, or is replaced by another error on every path; (T2) every TypeErrorEnum "
    "variant is constructed, the rule-specific ones inside the arm that owns the rule (mutability in VarAssign, recursion in the "
    "function checker, unused / pub-without-params in the program checker, arity in FnCall / enum literal / patterns); (T3) for "
    "each operator / construct the arm passes the listed checker calls (unify, expect_*, check_type, check_or_constrain_*, "
    "check_exhaustiveness) on every path to its accepting exit; (T4) let / for / for-join patterns go through the exhaustiveness "
    "procedure before acceptance (the compiler discards the match bit of binding patterns); (T5) the recursion guard brackets "
    "the body check; (T6) scopes balance on accepting paths and each match clause is checked between its own push and pop. "
    "(T7) check_type returns Ok only on the equal edge of `expr.ty == expected`, and every accepting path of unify passes the "
    "equality test or variant tests of both operands' types (no operand type is accepted unseen). "
    "Not decided: that unify / constrain_type / check_or_constrain_* compute the right relation on types (value level; the "
    "one structural slice of it, lossy casts before range checks, is C09-L1b), and combinations of two edits."
    " Also decided since the hunter rounds: struct literals / patterns report duplicated fields and always look for missing ones (T13); the exhaustiveness check aligns struct pattern fields by name (T14); number patterns are compared with min() / max() and their suffix with the matched type (T15); duplicated struct fields / enum variants in definitions and self-containing types are rejected, the latter before any function body is checked (T16); declared const types are resolved and an external value has one type (T17); a second top-level definition of the same name is reported (T19). T15 also demands both sides for each bound of a range pattern; T20: the arity test compares a list with one entry per written argument; T21: literals and range bounds that stay untyped are compared with the 32-bit bounds before the function is accepted.")
LEVEL_NOTE = ("Trusted: rustc MIR and callee resolution. The obligation table (T3) and the ownership table (T2) were filled by reading "
              "check.rs against the language documentation; they name checker functions by their last path segment.")
EXPLANATION = ("Functions analysed: every body of check.rs (T1, T2), UntypedExpr/UntypedStmt/UntypedPattern::type_check pruned to one "
               "AST variant (T2-T4, T6), UntypedFnDef::type_check (T5), UntypedProgram::type_check (T2).")
NOT_DECIDED = "correctness of the relation computed by unify / constrain_type / check_or_constrain_* (value level)"
ASSUMPTIONS = []

SELF1 = ("arg", 1)
INNER = (SELF1, ("inner",))
OP0 = (SELF1, ("inner", "as Op", "0"))
ERR_TY = re.compile(r"^std::result::Result<.*, (std::vec::Vec<std::option::Option<check::TypeError>>|check::TypeError)>$")


def checker_fns(ctx):
    return [f for f in ctx.facts["fns"] if "mir" in f and f["sp"][0].endswith("check.rs") and not f.get("from_expansion")]


def expr_tc(ctx):
    return ctx.find_fn("type_check", "&ast::Expr<()>", "check.rs")


def stmt_tc(ctx):
    return ctx.find_fn("type_check", "&ast::Stmt<()>", "check.rs")


def pat_tc(ctx):
    return ctx.find_fn("type_check", "&ast::Pattern<()>", "check.rs")


def ok_exits(body):
    out = []
    for b, blk in enumerate(body.blocks):
        for st in blk["stmts"]:
            if st["k"] == "assign" and st["place"]["l"] == 0 and not st["place"]["p"] and st["rv"]["k"] == "aggregate" and st["rv"].get("variant") == "Ok":
                out.append(b)
    return out


def with_loop_headers(body, blocks):
    via = set(blocks)
    for lp in body.loops():
        if lp["body"] & set(blocks):
            via.add(lp["header"])
    return via


# ------------------------------------------------------------------------------------------------ T1

DROPPERS = {"ok", "is_ok", "is_err", "unwrap_or", "unwrap_or_default", "unwrap_or_else", "drop", "err"}


def _iter_keeps_errors(body, b):
    """The iterator made by the call in block b is given to `filter_map(Result::err)`: the errors of the collected
    results are what is kept."""
    for x, t in body.calls():
        if mir.last_seg(mir.callee(t) or "") != "filter_map" or len(t["args"]) != 2:
            continue
        fn = t["args"][1]
        if fn["k"] != "const" or fn.get("fn") != "std::result::Result::<T, E>::err":
            continue
        # (the tracer looks through into_iter: the receiver of filter_map has the origins of what was iterated)
        got = body.trace_operand(t["args"][0])
        if any(r[:2] == ("call", b) for (r, p) in got) or got & body.trace_operand(body.term(b)["args"][0]):
            return True
    return False


def rule_t1(ctx):
    res = RuleResult("T1", "no type error is dropped")
    n = 0
    for f in checker_fns(ctx):
        body = ctx.body(f["id"])
        producers = {}
        for b, t in body.calls():
            if body.blocks[b]["cleanup"]:
                continue
            if ERR_TY.match(t["dest"]["ty"]) and not t["dest"]["p"]:
                cal = mir.callee(t) or ""
                dec = t["func"].get("declared") or cal
                if dec.startswith(("std::", "core::", "alloc::")):
                    continue  # adapters (map_err, ok_or, branch, from_residual ...) only transform a result produced elsewhere
                if mir.last_seg(cal) == "clone":
                    continue
                producers[b] = t
        if not producers:
            continue
        # sinks: operands whose origin is one of the producers
        consumed = {}
        for b, blk in enumerate(body.blocks):
            if blk["cleanup"]:
                continue
            items = []
            t = blk["term"]
            if t and t["k"] == "call":
                cal = mir.callee(t) or ""
                seg = mir.last_seg(cal)
                for a in t["args"]:
                    items.append((a, "call " + seg, seg))
            for st in blk["stmts"]:
                if st["k"] == "assign" and st["place"]["l"] == 0:
                    rv = st["rv"]
                    if rv["k"] == "use":
                        items.append((rv["op"], "return", "return"))
                    elif rv["k"] == "aggregate":
                        for o in rv["ops"]:
                            items.append((o, "return", "return"))
                elif st["k"] == "assign" and st["place"]["p"] and st["rv"]["k"] == "aggregate" and st["rv"].get("akind") == "array" and "vec" in (st["sp"][5] if len(st["sp"]) > 5 else []):
                    # `vec![Some(e)]`: the macro writes the array of elements into the new vector's buffer
                    for o in st["rv"]["ops"]:
                        items.append((o, "element of vec![..]", "push"))
            for (op, how, seg) in items:
                if op["k"] not in ("copy", "move"):
                    continue
                origins = set(body.trace(op["place"]))
                done = set()
                for _ in range(5):
                    # a wrapped payload such as Some(e) / vec![Some(e)] / Err(vec![Some(e)]): look at what was wrapped
                    fresh = [(r, p) for (r, p) in origins if (r, p) not in done]
                    if not fresh:
                        break
                    for (r, p) in fresh:
                        done.add((r, p))
                        inner = []
                        if r[0] == "agg":
                            inner = body.blocks[r[1]]["stmts"][r[2]]["rv"]["ops"]
                        elif r[0] == "call" and r[1] not in producers and mir.last_seg(str(r[2])) in ("into_vec", "box_assume_init_into_vec_unsafe", "write", "new", "from", "into"):
                            inner = body.term(r[1])["args"]
                        for o in inner:
                            if o["k"] in ("copy", "move"):
                                origins |= set(body.trace(o["place"]))
                for (r, p) in origins:
                    if r[0] == "call" and r[1] in producers:
                        whole = not any(x.startswith("as ") for x in p)
                        err_payload = "as Err" in p
                        if seg in DROPPERS:
                            continue
                        if err_payload or (whole and seg in ("branch", "return", "insert", "push", "extend", "from_residual", "map_err", "clone")):
                            consumed.setdefault(r[1], how)
                        elif whole and seg == "into_iter" and _iter_keeps_errors(body, b):
                            consumed.setdefault(r[1], "[results].into_iter().filter_map(Result::err)")
        for pb, t in producers.items():
            n += 1
            cal = mir.callee(t)
            site = "result of %s" % mir.last_seg(cal or "?")
            if t["dest"]["l"] == 0 and not t["dest"]["p"]:
                # tail call: the result is written straight into the return place
                res.ok({"function": f["id"], "producer": mir.last_seg(cal or "?"), "sink": "return (tail call)"})
                continue
            if pb in consumed:
                res.ok({"function": f["id"], "producer": mir.last_seg(cal or "?"), "sink": consumed[pb]})
                continue
            # replacement idiom: every path from the Err edge ends in an Err return
            if _err_edge_returns_err(body, pb):
                res.ok({"function": f["id"], "producer": mir.last_seg(cal or "?"), "sink": "replaced: every path from its Err edge returns another error"})
                res.idioms.append("error replaced by a more specific one on every path from the Err edge")
                continue
            res.bad(Finding("T1", f["id"], site + " dropped",
                            "the error of %s reaches neither `?`, an error vector, the return value nor the memo: an ill-typed sub-term is accepted" % cal, t["sp"]))
    if (n < 100) and not res.findings:
        raise AnchorMissing("T1: only %d error-producing calls found in check.rs (counted > 150 on the pinned tree)" % n)
    res.idioms = sorted(set(res.idioms))
    res.note("error-producing calls analysed: %d" % n)
    return res


def _err_edge_returns_err(body, pb):
    t = body.term(pb)
    for x in range(body.n):
        info = body.switch_info(x)
        if info and info[0] and info[0][0][0] == "call" and info[0][0][1] == pb and info[0][1] == ():
            tt = body.term(x)
            vmap = info[1]
            err_t = [tgt for v, tgt in tt["targets"] if vmap.get(v) == "Err"]
            listed = {v for v, _ in tt["targets"]}
            if not err_t and any(n == "Err" and v not in listed for v, n in vmap.items()):
                err_t = [tt["otherwise"]]
            if not err_t:
                continue
            reach = body.reachable(err_t)
            rets = [b for b in reach if body.term(b) and body.term(b)["k"] == "return"]
            if not rets:
                continue
            oks = set(ok_exits(body))
            # no Ok assignment reachable from the Err edge, and every path reports some error of its own
            if reach & oks:
                continue
            via = set()
            for b in reach:
                for st in body.blocks[b]["stmts"]:
                    if st["k"] == "assign" and st["rv"]["k"] == "aggregate" and st["rv"].get("adt") in ("check::TypeErrorEnum", "check::TypeError"):
                        via.add(b)
                tb = body.term(b)
                if tb and tb["k"] == "call" and mir.last_seg(mir.callee(tb) or "") == "push" and "check::TypeError" in tb["args"][0]["place"]["ty"]:
                    via.add(b)
            if all(body.must_pass(via, entry=e, exits=rets) is None for e in err_t):
                return True
    return False


# ------------------------------------------------------------------------------------------------ T2

OWNERS = [
    # variant, function finder, assumptions (pruned arm) or None for whole function
    ("IdentifierNotDeclaredAsMutable", stmt_tc, {INNER: "VarAssign"}),
    ("UnknownIdentifier", stmt_tc, {INNER: "VarAssign"}),
    ("UnknownIdentifier", expr_tc, {INNER: "Identifier"}),
    ("UnknownIdentifier", expr_tc, {INNER: "FnCall"}),
    ("WrongNumberOfArgs", expr_tc, {INNER: "FnCall"}),
    ("WrongNumberOfArgs", stmt_tc, {INNER: "ForEachLoop"}),
    ("UnexpectedEnumVariantArity", expr_tc, {INNER: "EnumLiteral"}),
    ("UnknownEnum", expr_tc, {INNER: "EnumLiteral"}),
    ("UnknownEnumVariant", expr_tc, {INNER: "EnumLiteral"}),
    ("UnknownStruct", expr_tc, {INNER: "StructLiteral"}),
    ("UnknownStructField", expr_tc, {INNER: "StructLiteral"}),
    ("MissingStructField", expr_tc, {INNER: "StructLiteral"}),
    ("UnknownStructField", expr_tc, {INNER: "StructAccess"}),
    ("TupleAccessOutOfBounds", expr_tc, {INNER: "TupleAccess"}),
    ("TupleAccessOutOfBounds", stmt_tc, {INNER: "VarAssign"}),
    ("UnexpectedType", expr_tc, {INNER: "Op", OP0: "ShortCircuitAnd"}),
    ("UnexpectedType", expr_tc, {INNER: "Op", OP0: "ShortCircuitOr"}),
    ("TypeDoesNotSupportPatternMatching", expr_tc, {INNER: "Match"}),
    ("UnexpectedEnumVariantArity", pat_tc, {(SELF1, ("0",)): "EnumTuple"}),
    ("MissingStructField", pat_tc, {(SELF1, ("0",)): "Struct"}),
]
WHOLE = [
    ("RecursiveFnDef", ("type_check", "&ast::FnDef<()>")),
    ("UnusedFn", ("type_check", "&ast::Program<()>")),
    ("PubFnWithoutParams", ("type_check", "&ast::Program<()>")),
    ("DuplicateFnParam", ("type_check", "&ast::FnDef<()>")),
    ("PatternsAreNotExhaustive", ("check_exhaustiveness", None)),
]


def _constructed(body, region=None):
    out = {}
    for b, blk in enumerate(body.blocks):
        if region is not None and b not in region:
            continue
        if blk["cleanup"]:
            continue
        for st in blk["stmts"]:
            if st["k"] == "assign" and st["rv"]["k"] == "aggregate" and st["rv"].get("adt") == "check::TypeErrorEnum":
                out.setdefault(st["rv"]["variant"], st["sp"])
    return out


def rule_t2(ctx):
    res = RuleResult("T2", "every kind of type error has an enforcing site, rule-specific ones in the arm that owns the rule")
    adt = ctx.adt("check::TypeErrorEnum")
    all_variants = [v["name"] for v in adt["variants"]]
    seen = {}
    for f in checker_fns(ctx):
        for v, sp in _constructed(ctx.body(f["id"])).items():
            seen.setdefault(v, f["id"])
    dead_on_pinned_tree = {"ExpectedEnumType", "PatternDoesNotMatchType", "UsizeNotLiteral"}  # never constructed there either: no rule behind them
    for v in all_variants:
        if v in dead_on_pinned_tree and v not in seen:
            res.note("TypeErrorEnum::%s is a dead variant (not constructed on the pinned tree either)" % v)
            continue
        if v in seen:
            res.ok({"error": v, "constructed_in": seen[v]})
        else:
            res.bad(Finding("T2", "check.rs", "TypeErrorEnum::%s never constructed" % v, "the static rule behind %s has no enforcing site any more" % v, adt["sp"]))
    for (v, finder, assume) in OWNERS:
        f = finder(ctx)
        body = ctx.body(f["id"])
        succ = body.pruned_succ(assume)
        region = body.reachable([0], succ=succ)
        label = "/".join(str(x) for x in assume.values())
        if len(region) == len(body.reachable([0])) or len(region) < 3:
            raise AnchorMissing("T2: cannot isolate the %s arm of %s" % (label, f["id"]))
        if v in _constructed(body, region):
            res.ok({"error": v, "arm": label})
        else:
            res.bad(Finding("T2", f["id"], "%s not raised in the %s arm" % (v, label),
                            "the %s arm no longer constructs TypeErrorEnum::%s: the rule it enforces there is gone" % (label, v), f["sp"]))
    # assignment is accepted only on the Mutability::Mutable edge of the binding's lookup
    f = stmt_tc(ctx)
    body = ctx.body(f["id"])
    base = {INNER: "VarAssign"}
    region = body.reachable([0], succ=body.pruned_succ(base))
    muts = [body.switch_info(b) for b in region if (body.switch_info(b) or (None, None, ""))[2] == "ast::Mutability"]
    if not muts:
        res.bad(Finding("T2", f["id"], "VarAssign does not test mutability", "the assignment arm never branches on the binding's Mutability", f["sp"]))
    else:
        bad = False
        for info in muts:
            if info[0] is None:
                continue
            assume = dict(base)
            assume[info[0]] = "Immutable"
            succ = body.pruned_succ(assume)
            reach = body.reachable([0], succ=succ)
            oks = [b for b in ok_exits(body) if b in reach]
            if oks:
                bad = True
                res.bad(Finding("T2", f["id"], "assignment accepted for an immutable binding",
                                "an accepting exit of the VarAssign arm is reachable on the Mutability::Immutable edge", body.term(oks[0])["sp"]))
        if not bad:
            res.ok({"arm": "VarAssign", "verdict": "no accepting exit on the Mutability::Immutable edge"})
    # every public function is tested for parameters, every private one for being used
    pf = ctx.find_fn("type_check", "&ast::Program<()>", "check.rs")
    pbody = ctx.body(pf["id"])
    for variant, flag_want, test_seg, test_recv in (("PubFnWithoutParams", True, "is_empty", "params"), ("UnusedFn", False, "contains_key", "typed")):
        sites = [b for b, blk in enumerate(pbody.blocks) for st in blk["stmts"]
                 if st["k"] == "assign" and st["rv"]["k"] == "aggregate" and st["rv"].get("adt") == "check::TypeErrorEnum" and st["rv"]["variant"] == variant]
        for sb in sites:
            loops = [lp for lp in pbody.loops() if sb in lp["body"]]
            if not loops:
                res.bad(Finding("T2", pf["id"], "%s not checked per function" % variant, "the error is raised outside the loop over the function definitions", pbody.fn["sp"]))
                continue
            lp = min(loops, key=lambda l: len(l["body"]))
            # the switch on fn_def.is_pub inside this loop
            pubs = []
            for x in lp["body"]:
                tt = pbody.term(x)
                if tt and tt["k"] == "switch" and tt["discr"]["k"] in ("copy", "move"):
                    if any(p and p[-1] == "is_pub" for (r, p) in pbody.trace(tt["discr"]["place"])):
                        pubs.append(x)
                    else:
                        for (r, p) in pbody.trace(tt["discr"]["place"], through={}):
                            if r[0] == "rv" and r[1] == "unop":
                                stn = pbody.blocks[r[2]]["stmts"][r[3]]
                                if any(pp and pp[-1] == "is_pub" for (rr, pp) in pbody.trace_operand(stn["rv"]["x"])):
                                    pubs.append(x)
            tests = {x for x in lp["body"] if pbody.term(x)["k"] == "call" and mir.last_seg(mir.callee(pbody.term(x)) or "") == test_seg and
                     any(p and test_recv in p for (r, p) in pbody.trace_operand(pbody.term(x)["args"][0]))}
            if not pubs or not tests:
                res.bad(Finding("T2", pf["id"], "%s: no per-function test" % variant, "the loop does not test is_pub / %s" % test_seg, pbody.term(sb)["sp"]))
                continue
            # from the first is_pub test, the side that leads to the error site must pass the second test on every
            # path back to the loop header (i.e. for *every* function of that visibility)
            ok = True
            for sw in pubs:
                side = [s_ for s_ in pbody.succs(sw) if sb in pbody.reachable([s_], blocked={lp["header"]})]
                for s_ in side:
                    if pbody.path(s_, [lp["header"]], blocked=tests) is not None and s_ not in tests:
                        ok = False
            if ok:
                res.ok({"rule": variant, "verdict": "every %s function is tested with %s" % ("public" if flag_want else "private", test_seg)})
            else:
                res.bad(Finding("T2", pf["id"], "%s is not tested for every function" % variant,
                                "some %s functions skip the %s test (an extra condition guards it): the rule is not enforced for them" % ("public" if flag_want else "private", test_seg),
                                pbody.term(sb)["sp"]))
    for (v, (name, self_ty)) in WHOLE:
        f = ctx.find_fn(name, self_ty, "check.rs")
        if v in _constructed(ctx.body(f["id"])):
            res.ok({"error": v, "function": f["id"]})
        else:
            res.bad(Finding("T2", f["id"], "%s not raised" % v, "%s no longer constructs TypeErrorEnum::%s" % (f["id"], v), f["sp"]))
    return res


# ------------------------------------------------------------------------------------------------ T3

def _op(v):
    return {INNER: "Op", OP0: v}


OBLIGATIONS = [
    # label, finder, assumptions, required callee last segments (each on every accepting path)
    *[("Op::%s" % v, expr_tc, _op(v), ["unify", "expect_num_type"]) for v in ("Add", "Sub", "Mul", "Div", "Mod")],
    *[("Op::%s" % v, expr_tc, _op(v), ["unify", "expect_bool_or_num_type"]) for v in ("BitAnd", "BitXor", "BitOr")],
    *[("Op::%s" % v, expr_tc, _op(v), ["unify", "expect_num_type"]) for v in ("GreaterThan", "LessThan")],
    *[("Op::%s" % v, expr_tc, _op(v), ["unify"]) for v in ("Eq", "NotEq")],
    *[("Op::%s" % v, expr_tc, _op(v), ["expect_num_type", "@unsigned"]) for v in ("ShiftLeft", "ShiftRight")],
    ("UnaryOp::Neg", expr_tc, {INNER: "UnaryOp", (SELF1, ("inner", "as UnaryOp", "0")): "Neg"}, ["expect_signed_num_type"]),
    ("UnaryOp::Not", expr_tc, {INNER: "UnaryOp", (SELF1, ("inner", "as UnaryOp", "0")): "Not"}, ["expect_bool_or_num_type"]),
    ("If", expr_tc, {INNER: "If"}, ["check_type", "unify"]),
    ("Cast", expr_tc, {INNER: "Cast"}, ["expect_bool_or_num_type"]),
    ("ArrayAccess", expr_tc, {INNER: "ArrayAccess"}, ["expect_array_type", "@unsigned"]),
    ("TupleAccess", expr_tc, {INNER: "TupleAccess"}, ["expect_tuple_type"]),
    ("StructAccess", expr_tc, {INNER: "StructAccess"}, ["expect_struct_type"]),
    ("Match", expr_tc, {INNER: "Match"}, ["check_exhaustiveness"]),
    ("FnCall", expr_tc, {INNER: "FnCall"}, ["?check_type"]),  # `?`: existence in the arm only (the accepting path correlates two errors.is_empty() tests)
    ("StructLiteral", expr_tc, {INNER: "StructLiteral"}, ["check_type"]),
    ("EnumLiteral(Tuple)", expr_tc, {INNER: "EnumLiteral", (SELF1, ("inner", "as EnumLiteral", "2")): "Tuple"}, ["check_type"]),
    ("ArrayLiteral", expr_tc, {INNER: "ArrayLiteral"}, ["check_type"]),
    ("Let with annotation", stmt_tc, {INNER: "Let", (SELF1, ("inner", "as Let", "1")): "Some"}, ["check_type"]),
    ("LetMut with annotation", stmt_tc, {INNER: "LetMut", (SELF1, ("inner", "as LetMut", "1")): "Some"}, ["check_type"]),
    ("VarAssign", stmt_tc, {INNER: "VarAssign"}, ["check_type"]),
    ("VarAssign[index]", stmt_tc, {INNER: "VarAssign"}, []),
    ("ForEachLoop", stmt_tc, {INNER: "ForEachLoop"}, ["expect_array_type"]),
]


def _discharges(ctx, body, b, w):
    """Block b calls the checker `w`.  `@unsigned`: the operand is shown to be of a fixed unsigned number type, by
    check_or_constrain_unsigned or by check_type against a Type::Unsigned(..) built on the spot."""
    t = body.term(b)
    if not t or t["k"] != "call":
        return False
    seg = mir.last_seg(mir.callee(t) or "")
    if w == "check_type" and seg == w:
        # a check against a fixed unsigned number type is the check of an index / shift amount, not of the construct's value
        return not _discharges(ctx, body, b, "@unsigned")
    if w != "@unsigned":
        return seg == w
    if seg == "check_or_constrain_unsigned":
        return True
    if seg == "check_type" and len(t["args"]) == 2 and t["args"][1]["k"] in ("copy", "move"):
        roots = body.trace(t["args"][1]["place"])
        def unsigned(r, p):
            if p:
                return False
            if r[0] == "agg":
                return body.blocks[r[1]]["stmts"][r[2]]["rv"].get("variant") == "Unsigned"
            if r[0] == "const":
                v = ctx.promoted_const(str(r[1]))
                vs = (v,) if isinstance(v, str) else (v or ())
                return any(x == "ast::Type::Unsigned" for x in vs)
            return False
        return bool(roots) and all(unsigned(r, p) for (r, p) in roots)
    return False


def rule_t3(ctx):
    res = RuleResult("T3", "typing obligations per construct are discharged on every accepting path")
    for (label, finder, assume, wants) in OBLIGATIONS:
        f = finder(ctx)
        body = ctx.body(f["id"])
        succ = body.pruned_succ(assume)
        region = body.reachable([0], succ=succ)
        if len(region) == len(body.reachable([0])) or len(region) < 4:
            raise AnchorMissing("T3: cannot isolate the %s arm of %s" % (label, f["id"]))
        exits = [b for b in ok_exits(body) if b in region]
        if not exits:
            raise AnchorMissing("T3: the %s arm has no accepting exit" % label)
        for w in wants:
            exist_only = w.startswith("?")
            w = w.lstrip("?")
            blocks = {b for b in region if _discharges(ctx, body, b, w)}
            via = with_loop_headers(body, blocks)
            wit = (body.must_pass(via, exits=exits, succ=succ) if not exist_only else None) if blocks else [0]
            if not blocks or wit:
                res.bad(Finding("T3", f["id"], "%s without %s" % (label, w),
                                "a %s expression / statement is accepted on a path that does not call %s" % (label, "a checker for a fixed unsigned number type" if w == "@unsigned" else w),
                                body.term(wit[-1])["sp"] if wit and wit != [0] else f["sp"], witness=["bb%d" % x for x in (wit or [])[-10:]]))
            else:
                res.ok({"construct": label, "checker": w, "sites": len(blocks)})
    # accessors of an assignment target
    f = stmt_tc(ctx)
    body = ctx.body(f["id"])
    for acc, wants in (("ArrayAccess", ["expect_array_type", "@unsigned"]), ("TupleAccess", ["expect_tuple_type"]), ("StructAccess", ["expect_struct_type"])):
        succ = body.pruned_succ({INNER: "VarAssign"})
        region = body.reachable([0], succ=succ)
        sw = [b for b in region if (body.switch_info(b) or (None, None, ""))[2] == "ast::Accessor"]
        if not sw:
            raise AnchorMissing("T3: VarAssign does not switch over Accessor")
        for s in sw:
            info = body.switch_info(s)
            t = body.term(s)
            tgt = [x for v, x in t["targets"] if info[1].get(v) == acc] or [t["otherwise"]]
            lp = [l for l in body.loops() if s in l["body"]]
            hdr = min(lp, key=lambda l: len(l["body"]))["header"] if lp else None
            for w in wants:
                blocks = {b for b in region if _discharges(ctx, body, b, w)}
                wit = body.path(tgt[0], [hdr] if hdr is not None else ok_exits(body), blocked=blocks, succ=succ)
                if wit:
                    res.bad(Finding("T3", f["id"], "assignment through %s without %s" % (acc, w), "an assignment target accessor is accepted without %s" % w, body.term(wit[-1])["sp"]))
                else:
                    res.ok({"construct": "VarAssign/" + acc, "checker": w})
    # function bodies: the last expression is checked against the declared return type (or compared with `()`)
    ff = ctx.find_fn("type_check", "&ast::FnDef<()>", "check.rs")
    fb = ctx.body(ff["id"])
    via = {b for b, t in fb.calls() if mir.last_seg(mir.callee(t) or "") == "check_type" or
           (t["func"].get("declared") in ("std::cmp::PartialEq::ne", "std::cmp::PartialEq::eq") and "ast::Type" in (t["func"].get("substs") or [""])[0])}
    wit = fb.must_pass(via, exits=ok_exits(fb))
    if wit or not via:
        res.bad(Finding("T3", ff["id"], "function body not checked against the return type", "a function definition is accepted on a path that neither check_types its last expression nor compares the return type with ()", ff["sp"]))
    else:
        res.ok({"construct": "fn body", "checker": "check_type / return type comparison"})
    return res


# ------------------------------------------------------------------------------------------------ T4

def rule_t4(ctx):
    res = RuleResult("T4", "binding patterns are shown irrefutable before the statement is accepted")
    f = stmt_tc(ctx)
    body = ctx.body(f["id"])
    for variant in ("Let", "ForEachLoop"):
        succ = body.pruned_succ({INNER: variant})
        region = body.reachable([0], succ=succ)
        exits = [b for b in ok_exits(body) if b in region]
        pats = [b for b in region if body.term(b)["k"] == "call" and mir.callee(body.term(b)) == pat_tc(ctx)["id"]]
        if not pats or not exits:
            raise AnchorMissing("T4: the %s arm does not type-check a pattern / has no accepting exit" % variant)
        via = {b for b in region if body.term(b)["k"] == "call" and mir.last_seg(mir.callee(body.term(b)) or "") in ("check_exhaustiveness", "usefulness")}
        for e in exits:
            wit = body.must_pass(via, exits=[e], succ=succ)
            site = "%s accepted without irrefutability check" % variant
            if wit:
                res.bad(Finding("T4", f["id"], site, "a %s whose pattern can fail to match (e.g. a literal inside a tuple pattern) is accepted; the compiler ignores the match bit of binding patterns" % variant.lower(),
                                body.term(e)["sp"] if body.term(e) else f["sp"], witness=["bb%d" % x for x in wit[-10:]]))
            else:
                res.ok({"statement": variant, "exit": "bb%d" % e, "verdict": "check_exhaustiveness on every accepting path"})
    # the compiler really discards the match bit of binding patterns (that is what makes T4 necessary)
    cs = ctx.find_fn("compile", "&ast::Stmt<ast::Type>", "compile.rs")
    cb = ctx.body(cs["id"])
    pc = ctx.find_fn("compile", "&ast::Pattern<ast::Type>", "compile.rs")
    for variant in ("Let", "ForEachLoop"):
        succ = cb.pruned_succ({INNER: variant})
        region = cb.reachable([0], succ=succ)
        for b in region:
            t = cb.term(b)
            if t["k"] == "call" and mir.callee(t) == pc["id"]:
                d = t["dest"]["l"]
                used = any(any(o.get("place", {}).get("l") == d for o in ([st["rv"].get("op")] if isinstance(st["rv"].get("op"), dict) else []) + st["rv"].get("ops", []))
                           for blk in cb.blocks for st in blk["stmts"] if st["k"] == "assign")
                res.note("compile.rs %s: match bit of the pattern is %s" % (variant, "used" if used else "discarded"))
    return res


# ------------------------------------------------------------------------------------------------ T5

def rule_t5(ctx):
    res = RuleResult("T5", "recursion guard brackets the check of the function body")
    f = ctx.find_fn("type_check", "&ast::FnDef<()>", "check.rs")
    body = ctx.body(f["id"])

    def guard_calls(seg):
        out = []
        for b, t in body.calls():
            if mir.last_seg(mir.callee(t) or "") == seg and "HashSet" in (mir.callee(t) or ""):
                # the set of functions being checked: the HashSet inside the TypedFns that is threaded through the checker (whatever the
                # field is called)
                if any(r[0] == "arg" and "TypedFns" in body.locals[r[1]]["ty"] and p for (r, p) in body.trace_operand(t["args"][0])):
                    out.append(b)
        return out
    contains, insert, remove = guard_calls("contains"), guard_calls("insert"), guard_calls("remove")
    # `if !set.insert(name) { recursion }` tests and sets in one call: an insert whose result decides a branch is a test as well
    for i in insert:
        for x in range(body.n):
            t = body.term(x)
            if t and t["k"] == "switch" and any(r[:2] == ("call", i) for (r, p) in body.deep_sources(t["discr"], 2)):
                contains = contains + [i]
                break
    blocks = [b for b, t in body.calls() if mir.last_seg(mir.callee(t) or "") == "type_check_block"]
    if not blocks:
        raise AnchorMissing("T5: UntypedFnDef::type_check does not call type_check_block")
    for b in blocks:
        if contains and any(body.dominates(c, b) for c in contains):
            res.ok({"verdict": "membership in currently_being_checked tested before the body"})
        else:
            res.bad(Finding("T5", f["id"], "no recursion test", "the body is checked without testing whether the function is already being checked: (mutual) recursion loops or is accepted", body.term(b)["sp"]))
        if insert and any(body.dominates(i, b) for i in insert):
            res.ok({"verdict": "currently_being_checked.insert dominates the body check"})
        else:
            res.bad(Finding("T5", f["id"], "guard not set", "the function is not marked as being checked while its body is checked", body.term(b)["sp"]))
        wit = body.must_pass(set(remove), entry=b) if remove else [b]
        if wit:
            res.bad(Finding("T5", f["id"], "guard not cleared", "a path from the body check to the exit does not clear the guard: later calls of the function are reported as recursion", body.term(wit[-1])["sp"]))
        else:
            res.ok({"verdict": "currently_being_checked.remove on every path after the body"})
    # the RecursiveFnDef error is returned on the `contains == true` edge
    rec = [b for b, blk in enumerate(body.blocks) for st in blk["stmts"] if st["k"] == "assign" and st["rv"]["k"] == "aggregate" and st["rv"].get("variant") == "RecursiveFnDef"]
    if rec and contains and all(any(body.dominates(c, r) for c in contains) for r in rec) and not any(any(body.dominates(r, b) for r in rec) for b in blocks):
        res.ok({"verdict": "RecursiveFnDef returned on the recursion edge, body not checked there"})
    else:
        res.bad(Finding("T5", f["id"], "recursion not reported", "the recursion edge does not return RecursiveFnDef before checking the body", f["sp"]))
    return res


# ------------------------------------------------------------------------------------------------ T6

CHECK_ENV_T = "env::Env<(std::option::Option<ast::Type>, ast::Mutability)>"


def rule_t6(ctx):
    res = RuleResult("T6", "scopes balance on accepting paths; each match clause and loop body is checked in its own scope")
    # depth dataflow (as C14-E2) over check.rs, judged at accepting exits only
    n_push = 0
    for f in checker_fns(ctx):
        body = ctx.body(f["id"])
        pp = [(b, t) for b, t in body.calls() if mir.callee(t) in (C14.ENV_PUSH, C14.ENV_POP)]
        if not pp:
            continue
        n_push += sum(1 for b, t in pp if mir.callee(t) == C14.ENV_PUSH)
        oks = set(ok_exits(body))
        seen = set()
        work = [(0, 0)]
        bad = None
        while work:
            b, d = work.pop()
            if (b, d) in seen or abs(d) > 6:
                continue
            seen.add((b, d))
            if body.blocks[b]["cleanup"]:
                continue
            if b in oks and d != 0 and bad is None:
                bad = (b, d)
            t = body.term(b)
            if t and t["k"] == "call" and mir.callee(t) in (C14.ENV_PUSH, C14.ENV_POP):
                # only the environment parameter / the function's own Env
                d += 1 if mir.callee(t) == C14.ENV_PUSH else -1
            for s in body.succs(b):
                work.append((s, d))
        if bad:
            res.bad(Finding("T6", f["id"], "scope depth %+d at an accepting exit" % bad[1],
                            "a construct is accepted with its scope still pushed / popped once too often: bindings outlive their block", body.fn["sp"]))
        else:
            res.ok({"function": f["id"], "push_pop_calls": len(pp), "verdict": "balanced at every accepting exit"})
    if n_push < 4:
        raise AnchorMissing("T6: expected the Env::push sites of check.rs (5 on the pinned tree), found %d" % n_push)
    # every match clause is checked between its own push and pop
    f = expr_tc(ctx)
    body = ctx.body(f["id"])
    succ = body.pruned_succ({INNER: "Match"})
    region = body.reachable([0], succ=succ)
    pats = [b for b in region if body.term(b)["k"] == "call" and mir.callee(body.term(b)) == pat_tc(ctx)["id"]]
    if not pats:
        raise AnchorMissing("T6: the Match arm does not type-check patterns")
    for pb in pats:
        loops = [lp for lp in body.loops() if pb in lp["body"]]
        if not loops:
            res.bad(Finding("T6", f["id"], "match clauses not checked in a loop", "cannot see the per-clause scope", body.term(pb)["sp"]))
            continue
        inner = min(loops, key=lambda l: len(l["body"]))
        pushes = [b for b in inner["body"] if body.term(b)["k"] == "call" and mir.callee(body.term(b)) == C14.ENV_PUSH]
        pops = [b for b in inner["body"] if body.term(b)["k"] == "call" and mir.callee(body.term(b)) == C14.ENV_POP]
        if pushes and pops and any(body.dominates(p, pb) for p in pushes):
            res.ok({"construct": "Match clause", "verdict": "push / pattern / body / pop inside the clause loop"})
        else:
            res.bad(Finding("T6", f["id"], "match clauses share one scope",
                            "the scope of a match clause is not opened and closed inside the clause loop: bindings of an earlier clause are visible in later clauses", body.term(pb)["sp"]))
    # loop patterns are bound inside a pushed scope
    sf = stmt_tc(ctx)
    sb = ctx.body(sf["id"])
    succ = sb.pruned_succ({INNER: "ForEachLoop"})
    region = sb.reachable([0], succ=succ)
    pats = [b for b in region if sb.term(b)["k"] == "call" and mir.callee(sb.term(b)) == pat_tc(ctx)["id"]]
    pushes = [b for b in region if sb.term(b)["k"] == "call" and mir.callee(sb.term(b)) == C14.ENV_PUSH]
    for pb in pats:
        if any(sb.dominates(p, pb) for p in pushes):
            res.ok({"construct": "for loop pattern", "verdict": "bound in a pushed scope"})
        else:
            res.bad(Finding("T6", sf["id"], "loop pattern bound in the enclosing scope", "the loop variable outlives the loop", sb.term(pb)["sp"]))
    # function bodies are checked in a fresh environment
    ff = ctx.find_fn("type_check", "&ast::FnDef<()>", "check.rs")
    fb = ctx.body(ff["id"])
    news = [b for b, t in fb.calls() if mir.callee(t) == "env::Env::<T>::new"]
    blocks = [b for b, t in fb.calls() if mir.last_seg(mir.callee(t) or "") == "type_check_block"]
    if news and all(any(fb.dominates(n_, b) for n_ in news) for b in blocks) and not any(fb.locals[l]["ty"].startswith("&mut env::Env") for l in range(1, fb.arg_count + 1)):
        res.ok({"construct": "fn body", "verdict": "checked in a fresh Env (callers' bindings invisible)"})
    else:
        res.bad(Finding("T6", ff["id"], "function body sees the caller's environment", "a function body is not checked in a fresh environment", ff["sp"]))
    return res


def rule_t7(ctx):
    """Agreement of two types is accepted only after comparing them or after looking at both."""
    from . import C02
    res = RuleResult("T7", "unify / check_type accept only after an equality test or after inspecting both types")
    # check_type: Ok only on the equal edge of `expr.ty == expected`
    cb = ctx.body("check::check_type")
    oks = ok_exits(cb)
    eq_true = set()
    for b, t in cb.calls():
        if mir.last_seg(mir.callee(t) or "") in ("eq", "ne") and len(t["args"]) == 2:
            a0 = {(r, tuple(p)) for (r, p) in cb.trace_operand(t["args"][0])}
            a1 = {(r, tuple(p)) for (r, p) in cb.trace_operand(t["args"][1])}
            if any(r == ("arg", 1) and p[:1] == ("ty",) for (r, p) in a0 | a1) and any(r == ("arg", 2) and not p for (r, p) in a0 | a1):
                if mir.last_seg(mir.callee(t)) == "eq":
                    eq_true |= C02._some_edges(cb, t)
    if not oks:
        raise AnchorMissing("T7: check_type has no Ok exit")
    for ob in oks:
        if eq_true and C02._dominated_by_edges(cb, eq_true, ob):
            res.ok({"function": "check_type", "verdict": "Ok only on the equal edge of `expr.ty == expected`"})
        else:
            res.bad(Finding("T7", cb.id, "check_type accepts without comparing", "an Ok exit of check_type is not guarded by the equality of the expression's type and the expected type", cb.fn["sp"]))
    # unify
    body = ctx.body("check::unify")
    oks = ok_exits(body)
    if not oks:
        raise AnchorMissing("T7: unify has no Ok exit")
    eq_true = set()
    for b, t in body.calls():
        if mir.last_seg(mir.callee(t) or "") == "eq" and len(t["args"]) == 2:
            srcs = set()
            for a in t["args"]:
                for (r, p) in body.trace_operand(a):
                    if r in (("arg", 1), ("arg", 2)) and tuple(p[:1]) == ("ty",):
                        srcs.add(r[1])
            if srcs == {1, 2}:
                eq_true |= C02._some_edges(body, t)
    if not eq_true:
        res.bad(Finding("T7", body.id, "unify never compares the two types", "no `e1.ty == e2.ty` test found in unify", body.fn["sp"]))
        return res
    side = {1: set(), 2: set()}
    for b in range(body.n):
        t = body.term(b)
        if not t or t["k"] != "switch" or body.blocks[b]["cleanup"] or t["discr"]["k"] not in ("copy", "move"):
            continue
        for d in body.defs().get(t["discr"]["place"]["l"], []):
            if d[0] == "assign" and d[3]["rv"]["k"] == "discriminant":
                for (r, p) in body.trace(d[3]["rv"]["place"]):
                    if r in (("arg", 1), ("arg", 2)) and tuple(p[:1]) == ("ty",):
                        side[r[1]].add(b)
    for k in (1, 2):
        def succ(b, k=k):
            if b in side[k]:
                return []
            return [x for x in body.succs(b) if (b, x) not in eq_true and not body.blocks[x]["cleanup"]]
        w = body.path(0, oks, succ=succ)
        if w:
            res.bad(Finding("T7", body.id, "unify accepts without looking at the type of operand %d" % k,
                            "a path reaches the accepting exit of unify without the equality test and without any test on e%d.ty (blocks %s): "
                            "one operand's type is accepted whatever it is" % (k, w), body.fn["sp"]))
        else:
            res.ok({"function": "unify", "verdict": "every accepting path passes `e1.ty == e2.ty` or a variant test of e%d.ty" % k, "variant_tests": len(side[k])})
    return res


REJECTING = ("check_type", "unify", "check_or_constrain_unsigned", "check_or_constrain_signed", "expect_num_type", "expect_bool_or_num_type",
             "expect_signed_num_type", "expect_array_type", "expect_tuple_type", "expect_struct_type", "expect_enum_type")


def rule_t8(ctx):
    """Where the checker finds two types to differ, it either reports an error or hands the pair to a checker that can reject."""
    from . import C02
    res = RuleResult("T8", "a detected type difference leads to an error or to a checker that can reject, never silently to acceptance")
    n = 0
    for f in checker_fns(ctx):
        if mir.last_seg(f["id"]) not in ("type_check", "check_const_expr") or f["kind"] == "closure":
            continue
        body = ctx.body(f["id"])
        oks = ok_exits(body)
        if not oks:
            continue
        rej = set()
        for b in range(body.n):
            t = body.term(b)
            if t and t["k"] == "call" and not body.blocks[b]["cleanup"]:
                seg = mir.last_seg(mir.callee(t) or "")
                if seg in REJECTING or (seg == "new" and "TypeError" in (mir.callee(t) or "")):
                    rej.add(b)
            for st in body.blocks[b]["stmts"]:
                if st["k"] == "assign" and st["rv"]["k"] == "aggregate" and st["rv"].get("adt") in ("check::TypeErrorEnum", "check::TypeError"):
                    rej.add(b)
        for b, t in body.calls():
            seg = mir.last_seg(mir.callee(t) or "")
            if seg != "ne" or len(t["args"]) != 2 or body.blocks[b]["cleanup"]:
                continue
            if not all(a["k"] in ("copy", "move") and a["place"]["ty"].lstrip("&").startswith("ast::Type") for a in t["args"]):
                continue
            n += 1
            differ = C02._some_edges(body, t)   # edges on which `ne` answered true
            if not differ:
                continue
            starts = {x for (_, x) in differ}
            w = None
            for s0 in starts:
                w = w or body.path(s0, oks, blocked=rej, succ=lambda x: [y for y in body.succs(x) if not body.blocks[y]["cleanup"]])
            if w:
                res.bad(Finding("T8", f["id"], "type difference at line %d can end in acceptance" % t["sp"][1],
                                "after `!=` found the two types to differ, a path reaches the accepting exit without constructing a type error and without calling a checker that can reject "
                                "(check_type, unify, check_or_constrain_*, expect_*); constrain_type alone never rejects non-numeric types (blocks %s)" % w[:10], t["sp"]))
            else:
                res.ok({"function": mir.last_seg(f["id"]), "line": t["sp"][1], "verdict": "differing types lead to an error or a rejecting checker"})
    if n < 4 and not res.findings:
        raise AnchorMissing("T8: expected the `!=` comparisons of types in the type_check functions (5 on the pinned tree), found %d" % n)
    return res


def rule_t9(ctx):
    """A const definition may only mention consts defined before it (the compiler resolves them in source order)."""
    res = RuleResult("T9", "const expressions are checked against the consts defined so far, not against all consts of the program")
    prog = ctx.find_fn("type_check", "&ast::Program<()>", "check.rs")
    body = ctx.body(prog["id"])
    calls = [(b, t) for b, t in body.calls() if mir.last_seg(mir.callee(t) or "") == "check_const_expr"]
    if len(calls) != 1:
        raise AnchorMissing("T9: expected one call of check_const_expr in the program checker, found %d" % len(calls))
    cb, ct = calls[0]
    maps = [a for a in ct["args"] if a["k"] in ("copy", "move") and "HashMap<std::string::String, ast::ConstDef>" in a["place"]["ty"]]
    if len(maps) != 1:
        raise AnchorMissing("T9: check_const_expr no longer takes one map of const definitions")
    src = body.trace_operand(maps[0])
    if any(r == SELF1 for (r, p) in src):
        res.bad(Finding("T9", prog["id"], "const expressions are checked against every const of the program",
                        "check_const_expr is given the program's complete definition map: forward references, cycles and self references are accepted, "
                        "but the compiler resolves const definitions in source order and panics on them", ct["sp"]))
        return res
    loops = [lp for lp in body.loops() if cb in lp["body"]]
    if not loops or not all(r[0] == "call" and mir.last_seg(r[2] or "") in ("new", "with_capacity") for (r, p) in src):
        raise AnchorMissing("T9: cannot see where the map of visible consts comes from (%s)" % sorted(src)[:2])
    lp = min(loops, key=lambda l: len(l["body"]))
    ins = [b for b, t in body.calls() if b in lp["body"] and mir.last_seg(mir.callee(t) or "") == "insert" and
           {(r, tuple(p)) for (r, p) in body.trace_operand(t["args"][0])} == {(r, tuple(p)) for (r, p) in src}]
    before = [b for b in ins if body.path(lp["header"], [cb], blocked=set(), succ=lambda x: [y for y in body.succs(x) if y in lp["body"]]) and body.dominates(b, cb)]
    after = [b for b in ins if body.path(cb, [b], succ=lambda x: [y for y in body.succs(x) if y in lp["body"] and y != lp["header"]])]
    if after and not before:
        res.ok({"verdict": "visible consts = a local map that receives each definition after it was checked (source order)"})
    else:
        res.bad(Finding("T9", prog["id"], "a const definition is visible while it is being checked", "the definition is entered into the map of visible consts before (or never after) its own expression is checked", ct["sp"]))
    return res


def rule_t10(ctx):
    """Every name a type mentions (struct / enum name, const used as an array size) is looked up when the type is made concrete."""
    res = RuleResult("T10", "as_concrete_type resolves every name a type mentions against the program's definitions")
    fid = "check::<impl ast::Type>::as_concrete_type"
    body = ctx.body(fid)
    oks = ok_exits(body)
    adt = ctx.adt("ast::Type")
    named = []
    for v in adt["variants"]:
        for i, f in enumerate(v["fields"]):
            if f["ty"] in ("std::string::String", "ast::ConstExpr"):
                named.append((v["name"], str(i), f["ty"]))
    if len(named) < 3 and not res.findings:
        raise AnchorMissing("T10: expected name-carrying variants of ast::Type (struct / enum names, const sizes), found %s" % named)
    for (vn, fi, fty) in named:
        if vn in ("Struct", "Enum"):
            continue  # already resolved names (the output of this very function)
        succ = body.pruned_succ({(SELF1, ()): vn})
        region = body.reachable([0], succ=succ)
        lookups = set()
        for b in region:
            t = body.term(b)
            if t["k"] != "call" or body.blocks[b]["cleanup"]:
                continue
            seg = mir.last_seg(mir.callee(t) or "")
            uses_field = any(r == SELF1 and len(p) >= 2 and p[0] == "as " + vn and p[1] == fi for a in t["args"] for (r, p) in body.deep_sources(a, 2))
            uses_defs = any(r == ("arg", 2) for a in t["args"] for (r, p) in body.deep_sources(a, 2))
            if uses_field and uses_defs and seg not in ("clone", "as_concrete_type"):
                lookups.add(b)
        label = "Type::%s field %s" % (vn, fi)
        if not lookups:
            res.bad(Finding("T10", fid, "%s is never looked up" % label,
                            "a type that mentions a name (here: %s) is accepted without checking that the name is defined (and is a usize const where a size is expected): "
                            "the compiler later unwraps the lookup and panics" % ("a const used as array size" if vn.startswith("Array") else "a definition"), body.fn["sp"]))
            continue
        w = body.path(0, [o for o in oks if o in region], blocked=lookups, succ=lambda x, succ=succ: [y for y in succ(x) if not body.blocks[y]["cleanup"]])
        if w:
            res.bad(Finding("T10", fid, "%s can be accepted without a lookup" % label, "a path reaches the accepting exit without resolving the name (blocks %s)" % w[:10], body.term(sorted(lookups)[0])["sp"]))
        else:
            res.ok({"type": label, "verdict": "resolved against the definitions on every accepting path"})
    return res


def rule_t11(ctx):
    """max / min / + / - in a const definition need a numeric declared type."""
    res = RuleResult("T11", "arithmetic const expressions are only accepted for consts of a number type")
    fns = [f["id"] for f in checker_fns(ctx) if mir.last_seg(f["id"]) == "check_const_expr"]
    if len(fns) != 1:
        raise AnchorMissing("T11: check_const_expr not found")
    body = ctx.body(fns[0])
    sw = None
    for b in range(body.n):
        info = body.switch_info(b)
        if info and info[2] == "ast::ConstExprEnum" and info[0]:
            sw = info
    if sw is None:
        raise AnchorMissing("T11: check_const_expr does not switch over ConstExprEnum")
    # the parameter that is the definition being checked: the one whose `.ty` the literal arms compare
    def_args = [l for l in range(1, body.arg_count + 1) if "ast::ConstDef" in body.locals[l]["ty"] and "HashMap" not in body.locals[l]["ty"]]
    if len(def_args) != 1:
        raise AnchorMissing("T11: check_const_expr has no single ConstDef parameter")
    da = def_args[0]
    rets = [b for b in range(body.n) if body.term(b) and body.term(b)["k"] == "return"]
    for v in ("Max", "Min", "Add", "Sub"):
        succ = body.pruned_succ({sw[0]: v})
        region = body.reachable([0], succ=succ)
        tests = set()
        for b in region:
            t = body.term(b)
            if body.blocks[b]["cleanup"]:
                continue
            if t["k"] == "switch":
                info = body.switch_info(b)
                if info and info[0] and info[0][0] == ("arg", da) and tuple(info[0][1][:1]) == ("ty",):
                    tests.add(b)
            if t["k"] == "call" and mir.last_seg(mir.callee(t) or "") in ("eq", "ne", "is_numeric", "is_num"):
                if any(r == ("arg", da) and tuple(p[:1]) == ("ty",) for a in t["args"] for (r, p) in body.trace_operand(a)):
                    tests.add(b)
        w = body.path(0, [x for x in rets if x in region], blocked=tests, succ=lambda x, succ=succ: [y for y in succ(x) if not body.blocks[y]["cleanup"]]) if tests else [0]
        if w:
            res.bad(Finding("T11", fns[0], "const expression %s is accepted for a const of any type" % v.lower(),
                            "the %s arm of check_const_expr never looks at the declared type of the const: `const B: bool = true + true` / `max(true, false)` is accepted and the compiler panics "
                            "when it resolves the expression numerically" % v, body.fn["sp"]))
        else:
            res.ok({"arm": v, "verdict": "the declared type of the const is examined on every path"})
    return res


def rule_t12(ctx):
    """The type of a block is the type of its LAST statement if that is an expression, else ()."""
    from . import C02
    res = RuleResult("T12", "a block takes the type of its last statement only (an expression in the middle of a block does not type it)")
    fid = "check::type_check_block"
    body = ctx.body(fid)
    # the local that ends up as the second component of the Ok((stmts, ty)) result
    rets = []
    for blk in body.blocks:
        for st in blk["stmts"]:
            if st["k"] == "assign" and st["rv"]["k"] == "aggregate" and st["rv"].get("akind") == "tuple" and len(st["rv"]["ops"]) == 2 and "ast::Type" in st["rv"]["ops"][1].get("place", {}).get("ty", ""):
                rets.append(mir.base_local(body, st["rv"]["ops"][1]))
    rets = [r for r in rets if r is not None]
    if len(set(rets)) != 1:
        raise AnchorMissing("T12: cannot identify the block-type local of type_check_block (%s)" % rets)
    ty_local = rets[0]
    loops = body.loops()
    writes = []
    for b, blk in enumerate(body.blocks):
        if blk["cleanup"]:
            continue
        for st in blk["stmts"]:
            if st["k"] == "assign" and st["place"]["l"] == ty_local and not st["place"]["p"] and any(b in lp["body"] for lp in loops):
                writes.append((b, st))
        t = blk["term"]
        if t and t["k"] == "call" and t["dest"]["l"] == ty_local and not t["dest"]["p"] and any(b in lp["body"] for lp in loops):
            writes.append((b, t))
    if not writes:
        raise AnchorMissing("T12: the block type is never assigned inside the statement loop")
    lp = min([l for l in loops if writes[0][0] in l["body"]], key=lambda l: len(l["body"]))
    # form A: every write is on the equal edge of `index == len - 1`
    last_edges = set()
    for b in lp["body"]:
        for st in body.blocks[b]["stmts"]:
            if st["k"] == "assign" and st["rv"]["k"] == "binop" and st["rv"]["op"] in ("Eq", "Ne"):
                sides = [body.deep_sources(st["rv"]["l"], 3), body.deep_sources(st["rv"]["r"], 3)]
                has_len = [any(r[0] == "call" and mir.last_seg(r[2] or "") == "len" for (r, p) in sd) and any(r[0] == "rv" for (r, p) in sd) for sd in sides]
                has_idx = [any(r[0] in ("index", "iter", "call") and ("enumerate" in (r[2] if len(r) > 2 and isinstance(r[2], str) else "") or r[0] == "index") for (r, p) in sd) for sd in sides]
                if (has_len[0] and has_idx[1]) or (has_len[1] and has_idx[0]):
                    last_edges |= mir.equality_edges(body, st)
    form_a = bool(last_edges) and all(C02._dominated_by_edges(body, last_edges, b) for b, _ in writes)
    # form B: the type is (re)assigned for every statement that is kept, so a later non-expression statement resets it
    pushes = [b for b in lp["body"] if body.term(b) and body.term(b)["k"] == "call" and mir.last_seg(mir.callee(body.term(b)) or "") == "push"
              and "ast::Stmt<ast::Type>" in body.term(b)["args"][1].get("place", {}).get("ty", "")]
    form_b = False
    if pushes:
        wb = {b for b, _ in writes}
        latches = [b for b in lp["body"] if lp["header"] in body.succs(b)]
        inl = lambda x: [y for y in body.succs(x) if y in lp["body"] and not body.blocks[y]["cleanup"]]
        # every iteration that keeps a statement passes a write
        form_b = all(not (body.path(lp["header"], [pb], blocked=wb, succ=inl) and body.path(pb, latches, blocked=wb, succ=inl)) for pb in pushes)
    if form_a or form_b:
        res.ok({"verdict": "block type assigned %s" % ("only for the statement at index len - 1" if form_a else "afresh for every statement")})
    else:
        res.bad(Finding("T12", fid, "an expression statement in the middle of a block types the block",
                        "the block type is taken from any expression statement and never reset: `{ e; let y = ..; }` gets the type of `e` instead of (), so ill-typed branches / bindings are accepted", writes[0][1]["sp"]))
    return res


def rule_t13(ctx):
    """Struct literals / patterns: every field of the definition exactly once."""
    res = RuleResult("T13", "struct literals and struct patterns reject duplicated fields and always look for missing ones")
    sites = [("struct literal", expr_tc(ctx), {INNER: "StructLiteral"}, True),
             ("struct pattern", pat_tc(ctx), {(SELF1, ("0",)): "Struct"}, True)]
    for label, f, assume, must_missing in sites:
        body = ctx.body(f["id"])
        succ = body.pruned_succ(assume)
        region = body.reachable([0], succ=succ)
        if len(region) == len(body.reachable([0])) or len(region) < 4:
            raise AnchorMissing("T13: cannot isolate the %s arm" % label)

        def builds(variant):
            out = set()
            for b in region:
                for st in body.blocks[b]["stmts"]:
                    if st["k"] == "assign" and st["rv"]["k"] == "aggregate" and st["rv"].get("adt") == "check::TypeErrorEnum" and st["rv"].get("variant") == variant:
                        out.add(b)
            return out
        dup = builds("DuplicateStructField")
        mis = builds("MissingStructField")
        if dup:
            res.ok({"site": label, "clause": "duplicates", "verdict": "a duplicated field is reported"})
        else:
            res.bad(Finding("T13", f["id"], "%s: a field given twice is not rejected" % label,
                            "no error is constructed for a duplicated field: a literal / pattern with a wrong number of fields is accepted", f["sp"]))
        if not mis:
            res.bad(Finding("T13", f["id"], "%s: missing fields are never reported" % label, "the arm constructs no MissingStructField error", f["sp"]))
            continue
        # the search for missing fields (the loop around the MissingStructField site) lies on every accepting path
        loops = [lp for lp in body.loops() if lp["body"] & mis]
        if not loops:
            raise AnchorMissing("T13: the %s arm does not look for missing fields in a loop" % label)
        lp = max(loops, key=lambda l: len(l["body"]))
        exits = [b for b in ok_exits(body) if b in region]

        def nsucc(x, region=region, succ=succ):
            out = [y for y in succ(x) if not body.blocks[y]["cleanup"]]
            t = body.term(x)
            if t["k"] == "switch" and t["discr"]["k"] in ("copy", "move") and body.locals[t["discr"]["place"]["l"]]["ty"] == "bool":
                v = mir.const_bool_under(body, t["discr"], region)
                if v is not None:
                    zero_t = [tg for val, tg in t["targets"] if val == 0]
                    out = [y for y in out if (y in zero_t) == (not v)]
            return out
        w = body.path(0, exits, blocked={lp["header"]}, succ=nsucc)
        if w:
            res.bad(Finding("T13", f["id"], "%s: the search for missing fields can be skipped" % label,
                            "a path accepts the %s without iterating over the fields of the definition (e.g. behind a comparison of the two lengths, which a duplicated field defeats): "
                            "a missing field goes unnoticed and the compiler panics on it" % label, body.term(sorted(mis)[0])["sp"]))
        else:
            res.ok({"site": label, "clause": "missing fields", "verdict": "looked for on every accepting path"})
    return res


def rule_t14(ctx):
    """Exhaustiveness (`a refutable pattern in let or for` / a match that does not cover its type): when a struct pattern is
    specialised, the sub-pattern of every field of the *definition* is looked up by name in the pattern (fields behind `..` match
    anything); taking the pattern's own field list positionally mis-aligns the columns of the pattern matrix."""
    from . import C09
    res = RuleResult("T14", "exhaustiveness: the fields of a struct pattern are aligned with the fields of the definition by name")
    fid = "check::specialize"
    if not ctx.has_fn(fid):
        raise AnchorMissing("T14: check::specialize not found")
    sb = ctx.body(fid)
    by_name = []
    for body in C09.bodies_with_closures(ctx, fid):
        for b, t in body.calls():
            if t["func"].get("declared") not in ("std::cmp::PartialEq::eq", "std::cmp::PartialEq::ne") or "String" not in "".join(t["func"].get("substs") or []):
                continue
            sides = [ctx.lifted_trace(body, a) for a in t["args"]]
            ctor_name = [i for i, sd in enumerate(sides) if any(f == fid and r == ("arg", 1) and tuple(p) == ("as Struct", "1", "[]", "0") for (f, r, p) in sd)]
            if not ctor_name:
                continue
            other = sides[1 - ctor_name[0]]
            ok = False
            for (f, r, p) in other:
                if any(x in ("as Struct", "as StructIgnoreRemaining") for x in p) and tuple(p[-3:]) == ("1", "[]", "0"):
                    ok = True
                ob = ctx.body(f)
                if r[0] == "arg" and ob.fn["kind"] == "closure":
                    site = ctx.closure_site(f)
                    if site:
                        pb, rv = site
                        for bb, tt in pb.calls():
                            if any(a["k"] in ("copy", "move") and any(rr[0] == "agg" and pb.blocks[rr[1]]["stmts"][rr[2]]["rv"] is rv for (rr, pp) in pb.trace(a["place"], through={})) for a in tt["args"][1:]):
                                for (rr, pp) in pb.trace_operand(tt["args"][0]):
                                    if any(x in ("as Struct", "as StructIgnoreRemaining") for x in pp):
                                        ok = True
            if ok:
                by_name.append((body, b, t))
    if by_name:
        res.ok({"site": "line %d" % by_name[0][2]["sp"][1], "verdict": "the name of every definition field is compared with the names of the pattern's fields"})
    else:
        res.bad(Finding("T14", fid, "struct pattern fields taken positionally",
                        "no comparison between the field names of the struct definition and of the pattern: with `..` (or another order) the sub-patterns end up in the "
                        "wrong columns, so `S { b: true, .. }` + `S { a: false, .. }` counts as exhaustive and `S { b: true, .. }` + `S { b: false, .. }` does not", sb.fn["sp"]))
    return res


def _range_gates(ctx):
    """Functions of check.rs in which an argument is compared with max() / min() of a number type (directly, or with the
    range that was built from them)."""
    gates = {}
    for f in ctx.fns.values():
        if not f.get("mir") or f["sp"][0] != "src/check.rs" or f["kind"] == "closure":
            continue
        body = ctx.body(f["id"])
        names = {mir.last_seg(mir.callee(t) or "") for _, t in body.calls()}
        for c in ctx.cg.closures_of.get(f["id"], ()):
            names |= {mir.last_seg(mir.callee(t) or "") for _, t in ctx.body(c).calls()}
        if "max" not in names:
            continue
        args_cmp = {}
        for blk in body.blocks:
            for st in blk["stmts"]:
                if st["k"] == "assign" and st["rv"]["k"] == "binop" and st["rv"]["op"] in ("Lt", "Le", "Gt", "Ge"):
                    for side in ("l", "r"):
                        o = st["rv"][side]
                        if o["k"] in ("copy", "move"):
                            for (r, p) in body.trace(o["place"]):
                                if r[0] == "arg" and not p:
                                    # which side of a bound the argument is tested to lie on
                                    less = st["rv"]["op"] in ("Lt", "Le")
                                    args_cmp.setdefault(r[1], set()).add("below" if less == (side == "l") else "above")
        if args_cmp:
            gates[f["id"]] = args_cmp
    return gates


def rule_t15(ctx):
    """Number patterns are compared with the matched value bit by bit in the width of the matched type (the lowering cuts the
    number down), and the exhaustiveness check works on the numbers as written: a number outside the type has to be refused."""
    res = RuleResult("T15", "number and range patterns are compared with the bounds of the matched number type before they are accepted")
    gates = _range_gates(ctx)
    f = pat_tc(ctx)
    body = ctx.body(f["id"])
    for variant, fields in (("NumUnsigned", ["0"]), ("NumSigned", ["0"]), ("UnsignedInclusiveRange", ["0", "1"]), ("SignedInclusiveRange", ["0", "1"])):
        succ = body.pruned_succ({(SELF1, ("0",)): variant})
        region = body.reachable([0], succ=succ)
        exits = [b for b in ok_exits(body) if b in region]
        if len(region) == len(body.reachable([0])) or not exits:
            raise AnchorMissing("T15: cannot isolate the %s arm of the pattern checker" % variant)
        # the written type suffix of the pattern is compared with the matched type
        sfx = str(len(fields))
        cmp_fns = {g["id"] for g in ctx.fns.values() if g.get("mir") and g["sp"][0] == "src/check.rs" and
                   any(tt["func"].get("declared") in ("std::cmp::PartialEq::eq", "std::cmp::PartialEq::ne") and "ast::Type" in "".join(tt["func"].get("substs") or [])
                       for _, tt in ctx.body(g["id"]).calls())}
        sblocks = set()
        for b in region:
            t = body.term(b)
            if t and t["k"] == "call" and (mir.callee(t) or "") in cmp_fns and (mir.callee(t) or "") != f["id"]:
                if any(a["k"] in ("copy", "move") and any(r == SELF1 and tuple(p[-2:]) == ("as " + variant, sfx) for (r, p) in body.deep_sources(a, depth=3)) for a in t["args"]):
                    sblocks.add(b)
        wit = body.must_pass(sblocks, exits=exits, succ=succ) if sblocks else [0]
        if wit:
            res.bad(Finding("T15", f["id"], "%s pattern: the type suffix is not compared with the matched type" % variant,
                            "the suffix written in the pattern is stored but never compared: `match a_u8 { 1u16 => .. }` and `match a_i64 { -5i8 => .. }` are accepted", f["sp"]))
        else:
            res.ok({"pattern": variant, "clause": "suffix", "verdict": "compared with the matched type on every accepting path"})
        for fld in fields:
            blocks = set()
            sides = set()
            for b in region:
                t = body.term(b)
                if not t or t["k"] != "call" or (mir.callee(t) or "") not in gates:
                    continue
                for i in gates[mir.callee(t)]:
                    a = t["args"][i - 1]
                    if a["k"] in ("copy", "move") and any(r == SELF1 and tuple(p[-2:]) == ("as " + variant, fld) for (r, p) in body.deep_sources(a, depth=2)):
                        blocks.add(b)
                        sides |= gates[mir.callee(t)][i]
            if blocks and sides != {"below", "above"}:
                res.bad(Finding("T15", f["id"], "%s pattern: number %s is only compared with one bound of the matched type" % (variant, fld),
                                "the number is only tested to lie %s a bound: the bounds of an inverted range (`256..=0` for a u8, `-128i8..-128i8` stored as -128..=-129) pass, are cut down to the "
                                "bits of the type by the lowering, and the arm matches values its pattern does not contain" % ("/".join(sorted(sides)) or "?"), f["sp"]))
                continue
            wit = body.must_pass(blocks, exits=exits, succ=succ) if blocks else [0]
            if wit:
                res.bad(Finding("T15", f["id"], "%s pattern: number %s is not compared with the bounds of the matched type" % (variant, fld),
                                "the pattern is accepted on a path on which its number never reaches a comparison with max() / min() of the matched number type: `256` matches "
                                "0u8, and `0..=249` + `250..=300` counts as exhaustive for a u8 while 255 matches neither", f["sp"]))
            else:
                res.ok({"pattern": variant, "number": fld, "verdict": "range-checked against the matched type on every accepting path"})
    return res


def prog_tc(ctx):
    fs = [f for f in ctx.find_fns("type_check", None, "check.rs") if "Program<()>" in f["id"]]
    if len(fs) != 1:
        raise AnchorMissing("T16: type_check of the untyped program not found")
    return fs[0]


def rule_t16(ctx):
    """Type definitions: a struct definition names each field once (the layout is per name, the size per entry), and no struct / enum
    contains itself (sizes and the exhaustiveness check recurse over the definitions: such a program must be rejected before any
    function body is checked, `never loops forever` / `never crashes`)."""
    res = RuleResult("T16", "type definitions: duplicated struct fields and self-containing types are rejected before function bodies are checked")
    f = prog_tc(ctx)
    body = ctx.body(f["id"])

    def builds(variant):
        return {b for b, blk in enumerate(body.blocks) if not blk["cleanup"] for st in blk["stmts"]
                if st["k"] == "assign" and st["rv"]["k"] == "aggregate" and st["rv"].get("adt") == "check::TypeErrorEnum" and st["rv"].get("variant") == variant}
    fn_checks = [b for b, t in body.calls() if (mir.callee(t) or "").endswith("FnDef<()>>::type_check") and not body.blocks[b]["cleanup"]]
    if not fn_checks:
        raise AnchorMissing("T16: the program checker does not call the function checker")
    # (a) duplicated field names of a struct definition
    dup = builds("DuplicateStructField")
    inserts = [b for b, t in body.calls() if mir.last_seg(mir.callee(t) or "") == "insert" and "StructDef" in "".join(t["func"].get("substs") or []) + str(t["func"].get("fty"))]
    if not dup:
        res.bad(Finding("T16", f["id"], "struct definition: a field declared twice is not rejected",
                        "no DuplicateStructField error is constructed for definitions: `struct S { a: u8, a: bool }` is accepted, `x.a` is typed bool but yields 8 wires", f["sp"]))
    else:
        # the comparison of names that leads there involves the fields of the definition being checked
        lp = [l for l in body.loops() if l["body"] & dup]
        if not lp:
            res.bad(Finding("T16", f["id"], "struct definition: duplicate test outside the loop over the fields", "the duplicate error is not raised per field", f["sp"]))
        else:
            res.ok({"clause": "duplicated struct fields", "verdict": "DuplicateStructField raised inside the loop over the definition's fields"})
    dupv = builds("DuplicateEnumVariant")
    if dupv and [l for l in body.loops() if l["body"] & dupv]:
        res.ok({"clause": "duplicated enum variants", "verdict": "DuplicateEnumVariant raised inside the loop over the definition's variants"})
    else:
        res.bad(Finding("T16", f["id"], "enum definition: a variant declared twice is not rejected",
                        "`enum E { A, A(u8), B }` is accepted; the checker keeps the last variant of that name, the compiler picks the first (panic or lost payload)", f["sp"]))
    # (b) self-containing types: error built, and the function checker is only reached when none was found
    rec = builds("RecursiveTypeDef")
    if not rec:
        res.bad(Finding("T16", f["id"], "recursive type definitions are not rejected",
                        "no RecursiveTypeDef error is constructed: `struct S { a: S }` passes the checker and the size computation / exhaustiveness check recurse until the stack overflows", f["sp"]))
        return res
    # the test is a call of a recursive helper over the definitions
    helpers = set()         # blocks that run the recursive walk whose answer decides about the RecursiveTypeDef error
    walk_closures = {}
    for sb in range(body.n):
        st_ = body.term(sb)
        if not st_ or st_["k"] != "switch" or st_["discr"]["k"] not in ("copy", "move") or not any(body.dominates(sb, x) for x in rec):
            continue
        for (r, p) in body.trace(st_["discr"]["place"], through={}):
            if r[0] != "call":
                continue
            c = body.term(r[1])
            cal = mir.callee(c) or ""
            def recursive(fid):
                """fid can reach a call of itself (directly or through the closures it defines)"""
                if not ctx.has_fn(fid):
                    return False
                seen, work = set(), [fid]
                while work:
                    x = work.pop()
                    nxt = set(ctx.cg.closures_of.get(x, ())) | {y for y in ctx.cg.edges.get(x, ()) if ctx.has_fn(y)}
                    if fid in nxt:
                        return True
                    for y in nxt:
                        if y not in seen and len(seen) < 200:
                            seen.add(y)
                            work.append(y)
                return False
            if recursive(cal):
                helpers.add(r[1])
            for a in c["args"]:
                if a["k"] in ("copy", "move"):
                    for (rr, pp) in body.trace(a["place"], through={}):
                        if rr[0] == "agg":
                            agg = body.blocks[rr[1]]["stmts"][rr[2]]["rv"]
                            clo = agg.get("closure")
                            if clo and ctx.has_fn(clo) and any(recursive(mir.callee(tt) or "") for _, tt in ctx.body(clo).calls()):
                                helpers.add(r[1])
                                walk_closures[r[1]] = agg
    # every path from the detection loop to the function checker passes the `found some` test whose true edge returns
    guards = set()
    for b in range(body.n):
        t = body.term(b)
        if t and t["k"] == "switch" and t["discr"]["k"] in ("copy", "move"):
            roots = set(body.trace(t["discr"]["place"], through={}))
            # `v.len() > 0` / `v.len() != 0` / `0 < v.len()` spell the same test
            for (r, p) in list(roots):
                if r[0] == "rv" and r[1] == "binop":
                    rv = body.blocks[r[2]]["stmts"][r[3]]["rv"]
                    for side, other in (("l", "r"), ("r", "l")):
                        if rv[other]["k"] == "const" and rv[other].get("val") == 0 and rv[side]["k"] in ("copy", "move"):
                            roots |= set(body.trace(rv[side]["place"], through={}))
            for (r, p) in roots:
                if r[0] == "call" and mir.last_seg(str(r[2])) in ("is_empty", "len"):
                    c = body.term(r[1])
                    if c["args"] and c["args"][0]["k"] in ("copy", "move"):
                        # the vector tested is the one the RecursiveTypeDef errors are pushed into
                        vec_roots = {rr for (rr, pp) in body.trace(c["args"][0]["place"])}
                        for pb, pt in body.calls():
                            if mir.last_seg(mir.callee(pt) or "") == "push" and {rr for (rr, pp) in body.trace(pt["args"][0]["place"])} == vec_roots and \
                                    any(rr[0] == "agg" for (rr, pp) in body.deep_sources(pt["args"][1], depth=3)) and any(body.dominates(x, pb) or x == pb for x in rec):
                                guards.add(b)
    # the walk for one definition must not be cut short by what was visited for another: the visited-set handed to the recursive
    # helper is created inside the loop over the definitions
    for hb_ in sorted(helpers):
        ht = body.term(hb_)
        sets = [a for a in ht["args"] if a["k"] in ("copy", "move") and "HashSet" in a["place"]["ty"]]
        if hb_ in walk_closures:
            sets += [o for o in walk_closures[hb_]["ops"] if o["k"] in ("copy", "move") and "HashSet" in o["place"]["ty"]]
        for a in sets:
            news = [r for (r, p) in body.trace(a["place"]) if r[0] == "call" and mir.last_seg(str(r[2])) in ("new", "with_capacity", "default")]
            lps = [l for l in body.loops() if hb_ in l["body"]]
            if news and lps:
                lp_ = min(lps, key=lambda l: len(l["body"]))
                if all(r[1] in lp_["body"] for r in news):
                    res.ok({"clause": "visited set", "verdict": "fresh for every definition"})
                else:
                    res.bad(Finding("T16", f["id"], "one visited-set shared by the walks of all definitions",
                                    "types visited while an earlier definition was examined are skipped for the later ones: a cycle that is first reached from outside "
                                    "(`struct C { a: A } enum A { X(B), Y } enum B { X(A), Y }`) is never found, and check / compile overflow the stack", body.term(news[0][1])["sp"]))
    if not helpers:
        res.bad(Finding("T16", f["id"], "recursive type definitions: no traversal of the definitions", "the RecursiveTypeDef error does not depend on a recursive walk over the field types", f["sp"]))
    elif not guards:
        res.bad(Finding("T16", f["id"], "recursive type definitions do not stop the checker",
                        "the RecursiveTypeDef errors are collected, but no test of that collection lies before the function bodies are checked: the exhaustiveness check recurses forever", f["sp"]))
    else:
        ok = True
        for g in guards:
            t = body.term(g)
            # is_empty() == true edge (`otherwise` of `switch [0 -> ..]`, or the 0 target under negation) must be the only way on
        w = body.path(0, fn_checks, blocked=guards)
        if w:
            res.bad(Finding("T16", f["id"], "function bodies can be checked without the recursion test",
                            "a path reaches the function checker without passing the test for self-containing types", body.term(w[-1])["sp"]))
        else:
            # and on the edge on which errors were found the checker returns
            bad = None
            for g in guards:
                t = body.term(g)
                neg = any(r[0] == "rv" and r[1] == "unop" for (r, p) in body.trace(t["discr"]["place"], through={}))
                for (r, p) in body.trace(t["discr"]["place"], through={}):
                    if r[0] == "rv" and r[1] == "binop":
                        rv = body.blocks[r[2]]["stmts"][r[3]]["rv"]
                        zero_right = rv["r"]["k"] == "const" and rv["r"].get("val") == 0
                        # len > 0, len != 0, 0 < len, 0 != len: true means `found some`
                        neg = (rv["op"] in ("Gt", "Ne") and zero_right) or (rv["op"] in ("Lt", "Ne") and not zero_right)
                found_edges = ([t["otherwise"]] if neg else [x for v, x in t["targets"] if v == 0])
                for x in found_edges:
                    if body.path(x, fn_checks):
                        bad = g
            if bad is not None:
                res.bad(Finding("T16", f["id"], "recursive type definitions do not stop the checker",
                                "after self-containing types were found the function bodies are still checked", body.term(bad)["sp"]))
            else:
                res.ok({"clause": "self-containing types", "verdict": "recursive walk over the definitions; with a finding the checker returns before any function body is checked"})
    return res


def rule_t17(ctx):
    """Const definitions: the declared type is resolved (a struct / enum name is still an unresolved name after parsing, and the
    checker and compiler panic on unresolved types), and a value provided by a party is registered with one type only (the
    compiler encodes the provided literal once per value; with two declared types it unwraps a missing / mistyped entry)."""
    res = RuleResult("T17", "const definitions: declared types are resolved; an external value has one type")
    f = prog_tc(ctx)
    body = ctx.body(f["id"])
    # (a) what goes into const_types comes out of as_concrete_type
    n = 0
    for b, t in body.calls():
        if mir.last_seg(mir.callee(t) or "") != "insert" or len(t["args"]) != 3 or t["args"][2]["k"] not in ("copy", "move"):
            continue
        if t["args"][2]["place"]["ty"] != "ast::Type":
            continue
        n += 1
        resolved = {tt["dest"]["l"] for _, tt in body.calls() if mir.last_seg(mir.callee(tt) or "") == "as_concrete_type"}
        if t["args"][2]["place"]["l"] in mir.forward_taint(body, resolved):
            res.ok({"site": "const type registered at line %d" % t["sp"][1], "verdict": "result of as_concrete_type"})
        else:
            res.bad(Finding("T17", f["id"], "declared const type registered unresolved",
                            "the type of a const is entered into the table of const types as it was parsed: `const C: E = PARTY_0::X;` (E an enum) leaves an unresolved type name, "
                            "and `match C { .. }` reaches unreachable!() in the checker", t["sp"]))
    if n != 1 and not res.findings:
        raise AnchorMissing("T17: expected one registration of a const type (HashMap<String, Type>::insert), found %d" % n)
    # (b) external values
    cands = [g for g in ctx.fns.values() if g.get("mir") and g["id"].endswith("::check_const_expr")]
    if len(cands) != 1:
        raise AnchorMissing("T17: check_const_expr not found")
    cb = ctx.body(cands[0]["id"])
    succ = cb.pruned_succ({(("arg", 1), ("0",)): "ExternalValue"})
    region = set(cb.reachable([0], succ=succ))
    ins = [b for b in region if cb.term(b) and cb.term(b)["k"] == "call" and mir.last_seg(mir.callee(cb.term(b)) or "") == "insert"]
    if not ins:
        raise AnchorMissing("T17: the ExternalValue arm of check_const_expr registers nothing")
    cmps = [b for b in region if cb.term(b) and cb.term(b)["k"] == "call" and cb.term(b)["func"].get("declared") in ("std::cmp::PartialEq::eq", "std::cmp::PartialEq::ne")
            and "ast::Type" in "".join(cb.term(b)["func"].get("substs") or [])]
    errs = [b for b in region for st in cb.blocks[b]["stmts"] if st["k"] == "assign" and st["rv"]["k"] == "aggregate" and st["rv"].get("adt") == "check::TypeErrorEnum"]
    if cmps and errs and all(any(cb.dominates(c, e) for c in cmps) for e in errs) and not any(cb.path(e, ins, succ=succ) for e in errs):
        res.ok({"site": "ExternalValue", "verdict": "the registered type of the value is compared with the declared type; a difference is an error and registers nothing"})
    else:
        res.bad(Finding("T17", cands[0]["id"], "external value registered with whatever type was seen last",
                        "`const A: bool = PARTY_0::X; const B: u8 = PARTY_0::X;` is accepted: the table of external values keeps one type per value, "
                        "and compile_with_constants unwraps the other", cb.term(ins[0])["sp"]))
    return res


def rule_t19(ctx):
    """Top-level definitions are kept in maps by name.  A second definition with the same name must be an error: if it silently
    replaces the first one, the first one (with whatever rule violations it contains) is never checked at all."""
    res = RuleResult("T19", "the parser reports a second top-level definition with the same name instead of replacing the first")
    f = ctx.find_fn("parse", "parse::Parser", "parse.rs")
    body = ctx.body(f["id"])
    inserts = [(b, t) for b, t in body.calls() if mir.last_seg(mir.callee(t) or "") == "insert" and "HashMap" in (mir.callee(t) or "") and not body.blocks[b]["cleanup"]]
    if len(inserts) < 4:
        raise AnchorMissing("T19: expected the four definition maps of Parser::parse, found %d inserts" % len(inserts))
    reports = {b for b, t in body.calls() if mir.last_seg(mir.callee(t) or "") in ("push_error", "push_error_for_next")}
    for b, t in inserts:
        what = (t["args"][2]["place"]["ty"] if t["args"][2]["k"] in ("copy", "move") else "?").split("::")[-1]
        # the returned Option must be examined, and on the `Some` (replaced) edge an error is recorded before the next definition
        examined = []
        for sb in range(body.n):
            st = body.term(sb)
            if not st or st["k"] != "switch" or st["discr"]["k"] not in ("copy", "move"):
                continue
            roots = body.trace(st["discr"]["place"], through={"std::option::Option::<T>::is_some": 0, "std::option::Option::<T>::is_none": 0})
            if any(r[:2] == ("call", b) for (r, p) in roots):
                examined.append(sb)
            info = body.switch_info(sb)
            if info and info[0] and info[0][0][:2] == ("call", b):
                examined.append(sb)
        ok = False
        for sb in examined:
            for x in body.succs(sb):
                lp = [l for l in body.loops() if sb in l["body"]]
                hdr = max(lp, key=lambda l: len(l["body"]))["header"] if lp else None
                if hdr is not None and not body.path(x, [hdr], blocked=reports) and body.path(x, [hdr]):
                    ok = True
        if ok:
            res.ok({"map": what, "line": t["sp"][1], "verdict": "a replaced definition is reported"})
        else:
            res.bad(Finding("T19", f["id"], "duplicate %s definition replaces the first one silently" % what,
                            "the result of the map insert is dropped: `fn f(x: u8) -> u8 { f(y) + true }  fn f(x: u8) -> u8 { x }` is accepted, the first f is never checked", t["sp"]))
    return res


def rule_t20(ctx):
    """`a wrong number of arguments`: the number of arguments written in the call is compared with the number of parameters.  The
    compared list must hold one entry per written argument - a list that was filled while zipping the arguments with the
    parameters has already been cut to the shorter of the two."""
    res = RuleResult("T20", "the arity test of a call compares the parameter count with a list that has one entry per written argument")
    f = expr_tc(ctx)
    body = ctx.body(f["id"])
    succ = body.pruned_succ({INNER: "FnCall"})
    region = set(body.reachable([0], succ=succ))
    errs = [b for b in region for st in body.blocks[b]["stmts"] if st["k"] == "assign" and st["rv"]["k"] == "aggregate" and st["rv"].get("variant") == "WrongNumberOfArgs"]
    if not errs:
        raise AnchorMissing("T20: the FnCall arm constructs no WrongNumberOfArgs error")

    def list_kind(op):
        """'args' (the node's argument list), 'params', 'per-arg' (filled once per written argument), 'zipped' or '?'"""
        roots = body.trace_operand(op) if op["k"] in ("copy", "move") else set()
        kinds = set()
        for (r, p) in roots:
            if r[0] == "call" and mir.last_seg(str(r[2])) == "len":
                c = body.term(r[1])
                for (rr, pp) in body.trace_operand(c["args"][0]):
                    if rr == SELF1 and "as FnCall" in pp and pp[pp.index("as FnCall") + 1:pp.index("as FnCall") + 2] == ("1",):
                        kinds.add("args")
                    elif "params" in pp:
                        kinds.add("params")
                    elif rr[0] == "call" and mir.last_seg(str(rr[2])) in ("new", "with_capacity"):
                        # a local list: look at the loops that push into it
                        k = "?"
                        for pb, pt in body.calls():
                            if mir.last_seg(mir.callee(pt) or "") != "push" or not any(x == rr for (x, y) in body.trace_operand(pt["args"][0])):
                                continue
                            lps = [l for l in body.loops() if pb in l["body"]]
                            if not lps:
                                k = "?"
                                break
                            lp = min(lps, key=lambda l: len(l["body"]))
                            nexts = [body.term(x) for x in lp["body"] if body.term(x) and body.term(x)["k"] == "call" and mir.last_seg(mir.callee(body.term(x)) or "") == "next"]
                            srcs = set()
                            zipped = False
                            for nt in nexts:
                                if "Zip" in nt["args"][0]["place"]["ty"]:
                                    zipped = True
                                for (r3, p3) in body.deep_sources(nt["args"][0], 3):
                                    if r3 == SELF1 and "as FnCall" in p3 and p3[p3.index("as FnCall") + 1:p3.index("as FnCall") + 2] == ("1",):
                                        srcs.add("args")
                                    elif "params" in p3:
                                        srcs.add("params")
                            if zipped:
                                k = "zipped"
                                break
                            k = "per-arg" if srcs == {"args"} else ("params" if srcs == {"params"} else "?")
                        kinds.add(k)
        return kinds
    n = 0
    for eb in errs:
        # the comparison that leads here
        for b in range(body.n):
            t = body.term(b)
            if not t or t["k"] != "switch" or t["discr"]["k"] not in ("copy", "move") or not body.dominates(b, eb):
                continue
            for (r, p) in body.trace(t["discr"]["place"], through={}):
                if r[0] == "rv" and r[1] == "binop":
                    rv = body.blocks[r[2]]["stmts"][r[3]]["rv"]
                    if rv["op"] not in ("Ne", "Eq", "Lt", "Gt", "Le", "Ge"):
                        continue
                    ks = [list_kind(rv["l"]), list_kind(rv["r"])]
                    if not any(ks):
                        continue
                    n += 1
                    flat = ks[0] | ks[1]
                    if "zipped" in flat:
                        res.bad(Finding("T20", f["id"], "arity compared on a list that was cut by zip",
                                        "the list whose length is compared with the parameter count was filled while iterating over `args.iter().zip(params)`: surplus arguments never enter it, "
                                        "so `add(x, y, nope)` for `fn add(a: u8, b: u8)` is accepted (and `nope` is never checked)", rv.get("sp") or body.term(b)["sp"]))
                    elif flat & {"args", "per-arg"} and "params" in flat:
                        res.ok({"verdict": "parameter count compared with %s" % sorted(flat - {"params"})})
    if (n == 0 or res.obligations == 0) and not res.findings:
        raise AnchorMissing("T20: no comparison of the parameter count with the argument list leads to WrongNumberOfArgs")
    return res


def rule_t21(ctx):
    """A number literal that nothing gives a type is lowered with 32 bits.  Whether something gives it a type is only known when
    the whole function body has been checked (re-typing happens afterwards, from the outside in), so before a function is accepted
    its body has to be walked once more: a literal (or range bound) that is still untyped must be a 32-bit value - otherwise
    `4294967296 == 0` is accepted and true."""
    res = RuleResult("T21", "before a function is accepted, number literals that stayed untyped are compared with the 32-bit bounds")
    f = ctx.find_fn("type_check", "&ast::FnDef<()>", "check.rs")
    body = ctx.body(f["id"])
    oks = [b for b in ok_exits(body)]
    if not oks:
        raise AnchorMissing("T21: the function checker has no accepting exit")
    # functions of check.rs that compare the payload of a number literal with a 32-bit bound
    BOUNDS = {2 ** 32 - 1, 2 ** 31 - 1, 2 ** 31, -(2 ** 31), 2 ** 64 - 2 ** 31}
    gates = set()
    for g in ctx.fns.values():
        if not g.get("mir") or g["sp"][0] != "src/check.rs":
            continue
        gb = ctx.body(g["id"])
        for blk in gb.blocks:
            for st in blk["stmts"]:
                if st["k"] == "assign" and st["rv"]["k"] == "binop" and st["rv"]["op"] in ("Lt", "Le", "Gt", "Ge"):
                    for side, other in (("l", "r"), ("r", "l")):
                        c = st["rv"][other]
                        consts = {c.get("val"), c.get("repr")} if c["k"] == "const" else {r[1] for (r, p) in gb.trace_operand(c) if r[0] == "const"}
                        is_bound = any(x in BOUNDS or (isinstance(x, str) and any(k in x for k in ("u32>::MAX", "i32>::MAX", "i32>::MIN", "4294967295", "2147483647", "2147483648"))) for x in consts)
                        if is_bound and st["rv"][side]["k"] in ("copy", "move"):
                            # (a literal of the *typed* tree: the comparison happens after the body was checked)
                            if any(r[0] == "arg" and "<ast::Type>" in gb.locals[r[1]]["ty"] and any(x in ("as NumUnsigned", "as NumSigned", "as Range") for x in p)
                                   for (r, p) in gb.deep_sources(st["rv"][side], 3)):
                                gates.add(g["id"])
    def reach_without_me(start):
        """functions reachable from `start` without going through the function checker itself (checking a call checks the
        callee's body, which ends in the same walk - that is the callee's walk, not this function's)"""
        seen, work = {start}, [start]
        while work:
            x = work.pop()
            for y in ctx.cg.edges.get(x, ()):
                if y not in seen and y != f["id"]:
                    seen.add(y)
                    work.append(y)
        return seen
    walkers = set()
    for b, t in body.calls():
        if body.blocks[b]["cleanup"]:
            continue
        for c in mir.callee_names(t):
            if c in ctx.fns and ctx.fns[c]["sp"][0] == "src/check.rs" and c != f["id"]:
                reach = reach_without_me(c)
                # it has to walk: the function (or what it calls) is recursive over statements / expressions
                if reach & gates and any(x in reach_without_me(y) for x in reach for y in ctx.cg.edges.get(x, ()) if y != f["id"]):
                    walkers.add(b)
    if not gates or not walkers:
        res.bad(Finding("T21", f["id"], "untyped number literals are never compared with the 32-bit bounds",
                        "no walk over the checked function body compares literals that stayed untyped with u32::MAX / i32::MIN / i32::MAX: `pub fn main(x: u8) -> bool { 4294967296 == 0 }` "
                        "is accepted and true, `let x = 5000000000; a + x` adds 705032704, `for i in 4294967295..4294967298` visits 4294967295, 0, 1", f["sp"]))
        return res
    for ob in oks:
        if any(body.dominates(w, ob) for w in walkers):
            res.ok({"accepting_exit": "bb%d" % ob, "verdict": "dominated by the walk that range-checks untyped literals"})
        else:
            res.bad(Finding("T21", f["id"], "a function can be accepted without the walk over its untyped literals",
                            "an accepting exit of the function checker is not dominated by the call that range-checks literals which stayed untyped", body.term(ob)["sp"] if body.term(ob) else f["sp"]))
    return res


def run(ctx):
    return ctx.run_rules([rule_t1, rule_t2, rule_t3, rule_t4, rule_t5, rule_t6, rule_t7, rule_t8, rule_t9, rule_t10, rule_t11, rule_t12, rule_t13, rule_t14, rule_t15, rule_t16, rule_t17, rule_t19, rule_t20, rule_t21])
