//! One failing test per distinct defect found for property C01
//! ("the compiled circuit returns exactly the value the source program denotes").
//!
//! Copy to `tests/hunt.rs` and run with `cargo test --offline --test hunt`.
//! Every program is compiled in all four configurations (SSA / register circuit, gate
//! de-duplication on / off); the expected value is what Rust-like, by-value, checked fixed-width
//! semantics give for the source program.

use garble_lang::{CircuitKind, CompileOptions, compile_with_options};
use std::panic::{AssertUnwindSafe, catch_unwind};

/// Compiles `prg` in all four configurations, runs it on `args` (Garble literals, one per
/// parameter) and returns the printed result, `PANIC(..)` for a panic flag raised by the circuit,
/// `COMPILE_ERR` if the program is rejected, `RUST_PANIC` if the compiler / evaluator crashed.
fn run_all(prg: &str, args: &[&str]) -> Vec<String> {
    let mut outs = vec![];
    for kind in [CircuitKind::Ssa, CircuitKind::Register] {
        for dedup in [true, false] {
            let r = catch_unwind(AssertUnwindSafe(|| {
                let opts = CompileOptions {
                    circuit_kind: kind,
                    optimize_duplicate_gates: dedup,
                    ..Default::default()
                };
                let compiled = match compile_with_options(prg, opts) {
                    Ok(c) => c,
                    Err(e) => return format!("COMPILE_ERR: {}", e.prettify(prg)),
                };
                let mut eval = compiled.evaluator();
                for a in args {
                    if let Err(e) = eval.parse_literal(a) {
                        return format!("ARG_ERR: {e}");
                    }
                }
                match eval.run() {
                    Err(e) => format!("EVAL_ERR: {e}"),
                    Ok(out) => match out.into_literal() {
                        Ok(l) => format!("{l}"),
                        Err(e) => format!("PANIC({e})"),
                    },
                }
            }));
            outs.push(r.unwrap_or_else(|_| "RUST_PANIC".to_string()));
        }
    }
    outs
}

fn assert_result(prg: &str, args: &[&str], expected: &str) {
    for (i, got) in run_all(prg, args).iter().enumerate() {
        assert_eq!(
            got, expected,
            "config {i} (0/1 = SSA with/without dedup, 2/3 = register): `{prg}` on {args:?}"
        );
    }
}

/// Like `assert_result`, but a program that is rejected at compile time is also fine (used where
/// Rust itself would reject the program, so that either rejecting it or computing the only
/// sensible value would be correct).
fn assert_result_or_rejected(prg: &str, args: &[&str], expected: &str) {
    for (i, got) in run_all(prg, args).iter().enumerate() {
        assert!(
            got == expected || got.starts_with("COMPILE_ERR"),
            "config {i}: `{prg}` on {args:?}: expected {expected} (or a compile-time error), got {got}"
        );
    }
}

// ---------------------------------------------------------------------------------------------
// 1. The body of a for loop is not a fresh scope per iteration.
//
// `let x = x + 1;` in the body shadows the outer `x`. In every iteration the right-hand side must
// refer to the *outer* x (= 1), so s = 2 + 2 + 2 = 6. The compiler binds the inner `x` in the one
// scope it opened for the whole loop, so iteration 2 reads the inner x of iteration 1: 2 + 3 + 4 = 9.
#[test]
fn for_loop_body_let_shadowing_outer_variable() {
    let prg = "pub fn main(x: i32) -> i32 {
    let mut s = 0i32;
    for i in 0u8..3u8 {
        let x = x + 1i32;
        s = s + x;
    }
    s
}";
    assert_result(prg, &["1"], "6");
}

// ---------------------------------------------------------------------------------------------
// 2. `x * -2` is compiled as `-(x + x)`: 64i8 * -2 = -128 is representable, but the intermediate
// x + x = 128 is not, so the circuit raises an Overflow panic. (Same for -4/32, -8/16, -16/8 ...;
// with a variable instead of the literal the result is correct.)
#[test]
fn mul_by_negative_literal_spurious_overflow() {
    assert_result("pub fn main(x: i8) -> i8 { x * -2i8 }", &["64"], "-128");
}

// ---------------------------------------------------------------------------------------------
// 3. `e * 3` is compiled as `e + e + e`, i.e. the operand expression `e` is compiled 3 times, so
// its side effects happen 3 times. c must be 1 afterwards, the circuit computes 3.
#[test]
fn mul_by_small_literal_repeats_side_effects_of_other_operand() {
    let prg = "pub fn main(x: i32) -> i32 {
    let mut c = 0i32;
    let y = ({ c = c + 1i32; x }) * 3i32;
    c
}";
    assert_result(prg, &["5"], "1");
}

// ---------------------------------------------------------------------------------------------
// 4. `a <= b` is desugared by the parser to `(a < b) | (a == b)` with both operands duplicated,
// so the side effects of an operand happen twice (same for `>=`). c must be 1, the circuit says 2.
#[test]
fn less_or_equal_evaluates_operands_twice() {
    let prg = "pub fn main(x: i32) -> i32 {
    let mut c = 0i32;
    let b = ({ c = c + 1i32; x }) <= 5i32;
    c
}";
    assert_result(prg, &["1"], "1");
}

// ---------------------------------------------------------------------------------------------
// 5. `a[i] += v` is desugared to `a[i] = a[i] + v` with the index expression duplicated, so an
// index expression with a side effect is evaluated twice: i ends up as 2 instead of 1 and the
// element that is read (a[2]) differs from the element that is written (a[1]).
#[test]
fn compound_assignment_evaluates_index_twice() {
    let prg = "pub fn main(x: usize) -> (usize, [i32; 3]) {
    let mut i = x;
    let mut a = [10i32, 20i32, 30i32];
    a[({ i = i + 1usize; i })] += 1i32;
    (i, a)
}";
    assert_result(prg, &["0"], "(1, [10, 21, 30])");
}

// ---------------------------------------------------------------------------------------------
// 6. `a[0] = <rhs>` reads the old value of the whole variable `a` *before* `<rhs>` is compiled and
// writes back "old a with element 0 replaced", so a write to `a` inside `<rhs>` is lost.
// Expected (Rust evaluates the assigned value first, then the place): [1, 7]; circuit: [1, 5].
#[test]
fn assignment_through_accessor_loses_writes_made_by_rhs() {
    let prg = "pub fn main(x: i32) -> [i32; 2] {
    let mut a = [x, x];
    a[0] = ({ a[1] = 7i32; 1i32 });
    a
}";
    assert_result(prg, &["5"], "[1, 7]");
}

// ---------------------------------------------------------------------------------------------
// 7. When a typed operand is unified with an *expression* of unsuffixed numbers, only the type of
// the outermost node is changed; the nested nodes keep the type "unspecified unsigned, 32 bits"
// and are evaluated as such.
//  (a) i8: (0 - 1) is computed as an unsigned 32-bit subtraction -> spurious Overflow panic
//  (b) u8: !0 >> 4 is computed on 32 bits and then truncated: 0xFF instead of 0x0F -> the
//      addition 1 + 255 overflows (panic) instead of giving 16
#[test]
fn nested_untyped_number_expression_is_not_evaluated_in_the_unified_type() {
    assert_result("pub fn main(x: i8) -> i8 { let y = x + ((0 - 1) + 0); y }", &["5"], "4");
    assert_result("pub fn main(x: u8) -> u8 { let y = x + (!0 >> 4u8); y }", &["1"], "16");
}

// ---------------------------------------------------------------------------------------------
// 8. A number bound by `let` without a type suffix is always lowered as a 32-bit value, even if
// the type checker lets it take on a 64-bit type where it is used: 4000000000 is then
// sign-extended from bit 31 (-294967296), 5000000000 is truncated to 705032704.
#[test]
fn untyped_let_bound_number_used_as_64_bit_value() {
    assert_result("pub fn main(x: i64) -> i64 { let a = 4000000000; x + a }", &["0"], "4000000000");
    assert_result("pub fn main(x: u64) -> u64 { let a = 5000000000; x + a }", &["0"], "5000000000");
}

// ---------------------------------------------------------------------------------------------
// 9. An array (or tuple) of unsuffixed numbers bound by `let` consists of 32-bit elements; when
// the variable is then used as `[u8; 2]` (annotated let, function argument, return value) the
// wires are reinterpreted with the 8-bit stride: b[1] reads bits 8..16 of the first element.
// Expected 2, the circuit returns 0. (With a tuple `(u8, i64)` decoding the output even crashes.)
#[test]
fn untyped_let_bound_array_used_with_another_element_type() {
    let prg = "pub fn main(x: u8) -> u8 { let a = [1, 2]; let b: [u8; 2] = a; b[1] + x }";
    assert_result(prg, &["0"], "2");
}

// ---------------------------------------------------------------------------------------------
// 10. Number patterns are not checked against the range of the matched type and are truncated
// when compiled.
//  (a) `256` on a u8 is compiled as the 8-bit pattern 0, so x = 0 takes the first clause.
//  (b) `250..=300` is compiled with the upper bound 300 mod 256 = 44, so it matches nothing, yet
//      the exhaustiveness check counts it as covering 250..=255: for x = 255 *no* clause matches
//      and the match evaluates to 0, a value that no clause can produce.
// (Rust rejects both programs; rejecting them would be fine, too.)
#[test]
fn match_number_pattern_out_of_range_of_the_matched_type() {
    assert_result_or_rejected("pub fn main(x: u8) -> u8 { match x { 256 => 1u8, _ => 2u8 } }", &["0"], "2");
    assert_result_or_rejected(
        "pub fn main(x: u8) -> u8 { match x { 0..=249 => 1u8, 250..=300 => 2u8 } }",
        &["255"],
        "2",
    );
}

// ---------------------------------------------------------------------------------------------
// 11. The exhaustiveness check misaligns the columns of struct patterns with `..`: the patterns
// `S { b: true, .. }` and `S { a: false, .. }` are accepted as exhaustive although
// `S { a: true, b: false }` is not covered. For that value no clause matches and the match
// evaluates to 0. The program must be rejected (non-exhaustive patterns).
#[test]
fn struct_pattern_with_rest_accepted_as_exhaustive() {
    let prg = "struct S { a: bool, b: bool }
pub fn main(s: S) -> u8 { match s { S { b: true, .. } => 1u8, S { a: false, .. } => 2u8 } }";
    for got in run_all(prg, &["S { a: true, b: false }"]) {
        assert!(
            got.starts_with("COMPILE_ERR"),
            "non-exhaustive match was accepted and evaluated to {got}"
        );
    }
}

// ---------------------------------------------------------------------------------------------
// 12. Function bodies are compiled in the environment of the *caller*: a local variable of the
// caller that shadows a top-level const is seen by the callee instead of the const.
// f(10) must be 10 + N = 15, the circuit computes 10 + 1 = 11.
#[test]
fn callee_sees_local_variable_of_caller_instead_of_const() {
    let prg = "const N: u8 = 5u8;
fn f(x: u8) -> u8 { x + N }
pub fn main(x: u8) -> u8 { let N = 1u8; f(x) }";
    assert_result(prg, &["10"], "15");
}

// ---------------------------------------------------------------------------------------------
// 13. The field expressions of a struct literal are evaluated in the order of the struct
// definition (the parser even sorts them by name), not in the order in which they are written.
// Written order: b = (c = 2), then a = (c = 4) -> s.a == 4. The circuit computes a first: 2.
#[test]
fn struct_literal_fields_are_not_evaluated_in_source_order() {
    let prg = "struct S { a: i32, b: i32 }
pub fn main(x: i32) -> i32 {
    let mut c = x;
    let s = S { b: { c = c + 1i32; c }, a: { c = c * 2i32; c } };
    s.a
}";
    assert_result(prg, &["1"], "4");
}

// ---------------------------------------------------------------------------------------------
// 14. for-join loops (and `join`) merge the two arrays with an *unsigned* comparison of the key
// bits, so arrays with signed keys that are sorted in strictly ascending order (as the docs
// require) are not joined correctly: the pair with key -1 is missed here.
#[test]
fn join_loop_over_signed_keys_misses_matches() {
    let prg = "pub fn main(r1: [(i8, u16); 1], r2: [(i8, u16); 2]) -> u16 {
    let mut s = 0u16;
    for ((_, a), (_, b)) in join_iter(r1, r2) {
        s = s + a * b;
    }
    s
}";
    assert_result(prg, &["[(-1, 2)]", "[(-1, 7), (0, 8)]"], "14");
}

// ---------------------------------------------------------------------------------------------
// 15. A program whose parameters have no bits at all is accepted, but its circuit cannot be
// evaluated: the constant gates are built from input wire 0, which does not exist. The SSA
// evaluator panics (`Option::unwrap()` on `None`), the conversion to a register circuit panics
// ("no entry found for key").
#[test]
fn program_without_input_bits_crashes() {
    assert_result("pub fn main(x: ()) -> bool { true }", &["()"], "true");
}
