//! Property C01: the compiled circuit returns exactly the value the source program denotes.
//!
//! One test per distinct defect; every test FAILS on the unchanged code. Copy this file to
//! `tests/hunt.rs` and run `cargo test --offline --test hunt`.
//!
//! Every program is compiled in all four configurations (SSA / register circuit, with and without
//! de-duplication of gates) and evaluated on the encoded arguments.

use garble_lang::{CircuitKind, CompileOptions, compile_with_options};

/// Compiles `prg` in all 4 configurations, evaluates `main` on `args` (Garble literals) and returns
/// `Ok(<printed result>)` or `Err(<compile error / panic description>)` for each configuration.
fn eval_all(prg: &str, args: &[&str]) -> Vec<Result<String, String>> {
    let mut results = vec![];
    for kind in [CircuitKind::Ssa, CircuitKind::Register] {
        for dedupe in [true, false] {
            let opts = CompileOptions {
                circuit_kind: kind,
                consts: Default::default(),
                optimize_duplicate_gates: dedupe,
            };
            let compiled = match compile_with_options(prg, opts) {
                Ok(c) => c,
                Err(e) => {
                    results.push(Err(format!("compile error: {}", e.prettify(prg))));
                    continue;
                }
            };
            let inputs: Vec<Vec<bool>> = args
                .iter()
                .enumerate()
                .map(|(i, a)| compiled.parse_arg(i, a).expect("argument").as_bits())
                .collect();
            let out = compiled.circuit.eval(&inputs);
            results.push(match compiled.parse_output(&out) {
                Ok(l) => Ok(format!("{l}")),
                Err(e) => Err(format!("{}", e.prettify(prg).lines().next().unwrap_or(""))),
            });
        }
    }
    results
}

fn assert_all(prg: &str, args: &[&str], expected: &str) {
    for (i, r) in eval_all(prg, args).into_iter().enumerate() {
        assert_eq!(r, Ok(expected.to_string()), "configuration {i} of\n{prg}\nwith args {args:?}");
    }
}

/// D1: `x * <negative literal>` is lowered to `-(x + x + ... + x)`. The positive intermediate sum
/// overflows although the product is representable: 64i8 * -2 == -128 (i8::MIN), but the circuit
/// reports an overflow panic. (`x * y` with y == -2 as a variable correctly gives -128.)
/// Correct behaviour: result -128, no panic. Same for 32 * -4, 16 * -8, 16384i16 * -2, ...
#[test]
fn d1_mul_by_negative_literal_panics_although_product_is_representable() {
    assert_all("pub fn main(x: i8, y: i8) -> i8 { x * y }", &["64", "-2"], "-128"); // passes
    assert_all("pub fn main(x: i8, y: i8) -> i8 { x * -2 }", &["64", "0"], "-128");
}

/// D2a: a number literal without a type suffix that is bound by `let` (or sits in a tuple / array
/// that is bound by `let`) is lowered as a 32-bit value, even if the variable is later used (and
/// type-checked) as a 64-bit number. The high bits of the literal are silently dropped.
/// Correct behaviour (Rust infers `x: u64`): 5000000001. Observed: 705032705.
#[test]
fn d2a_unsuffixed_literal_bound_by_let_is_truncated_to_32_bits() {
    assert_all("pub fn main(a: u64, b: u8) -> u64 { a + 5000000000 }", &["1", "0"], "5000000001"); // passes
    assert_all(
        "pub fn main(a: u64, b: u8) -> u64 { let x = 5000000000; a + x }",
        &["1", "0"],
        "5000000001",
    );
}

/// D2b: the 32 wires of such a variable are extended with the signedness of the type it is *used*
/// as, not of the literal: 3000000000 (bit 31 set) used as i64 is sign-extended to -1294967296.
/// Correct behaviour: 3000000001. Observed: -1294967295.
#[test]
fn d2b_unsuffixed_literal_used_as_i64_is_sign_extended() {
    assert_all(
        "pub fn main(a: i64, b: u8) -> i64 { let x = 3000000000; a + x }",
        &["1", "0"],
        "3000000001",
    );
}

/// D2c: arithmetic that only involves unsuffixed literals (directly or through `let` variables) is
/// evaluated as *unsigned 32-bit* arithmetic when it is bound by `let`, whatever (signed / wider)
/// type the result is used as afterwards. `1 - 2` panics with an overflow although the variable is
/// used as an i64 (Rust: c == -1, result 9); `1 << 40` used as u64 panics as well.
/// Correct behaviour: 9 (and 1099511627777), no panic.
#[test]
fn d2c_arithmetic_on_unsuffixed_literals_is_unsigned_32_bit() {
    assert_all("pub fn main(x: i64, y: i64) -> i64 { let c = 1 - 2; x + c }", &["10", "0"], "9");
}
#[test]
fn d2c_shift_of_unsuffixed_literal_is_32_bit() {
    assert_all(
        "pub fn main(x: u64, y: i64) -> u64 { let c = 1 << 40; x + c }",
        &["1", "0"],
        "1099511627777",
    );
}

/// D2d: a range of unsuffixed numbers keeps 32-bit elements even if the loop variable is used as
/// u64: 4294967296 and 4294967297 become 0 and 1.
/// Correct behaviour: 4294967295 + 4294967296 + 4294967297 = 12884901888. Observed: 4294967296.
#[test]
fn d2d_range_of_unsuffixed_numbers_is_truncated_to_32_bits() {
    assert_all(
        "pub fn main(x: u64, y: u8) -> u64 { let mut s = x; for i in 4294967295..4294967298 { s = s + i; } s }",
        &["0", "0"],
        "12884901888",
    );
}

/// D2e (lower confidence): an expression that consists of unsuffixed literals only is an *unsigned*
/// 32-bit number, Rust's default is i32: `!3 <= 2` is `-4 <= 2 == true` in Rust, Garble computes
/// `4294967292 <= 2 == false`; `0 - 1 < 0` panics instead of being true.
#[test]
fn d2e_literal_only_expressions_are_unsigned() {
    assert_all("pub fn main(x: i32, y: i64) -> bool { !3 <= 2 }", &["0", "0"], "true");
}

/// D3: a `for` loop over an array whose elements have a size of 0 bits (`()`, an enum with a single
/// variant, a struct without fields, ...) never executes its body, because the loop is driven by
/// the number of wires of the array instead of the number of elements.
/// Correct behaviour: the body runs 3 times, result 6. Observed: 0.
#[test]
fn d3_for_loop_over_zero_sized_elements_never_runs() {
    assert_all(
        "pub fn main(x: u8, y: u8) -> u8 { let mut c = 0u8; for _u in [(); 3] { c = c + x; } c }",
        &["2", "0"],
        "6",
    );
}
#[test]
fn d3_for_loop_over_single_variant_enum_never_runs() {
    assert_all(
        "enum E { A }
pub fn main(x: u8, y: u8) -> u8 { let mut c = 0u8; for _e in [E::A, E::A, E::A] { c = c + x; } c }",
        &["2", "0"],
        "6",
    );
}

/// D4: `a[i] op= v` is desugared to `a[i] = a[i] op v` and the index expression `i` is evaluated
/// twice: once for the element that is written and once more for the element that is read. If `i`
/// has a side effect, it happens twice and the element that is read is not the one that is written.
/// Correct behaviour: k == 1, a == [1, 2 + 10, 3]. Observed: (2, [1, 13, 3]).
#[test]
fn d4_compound_assignment_evaluates_the_index_twice() {
    assert_all(
        "pub fn main(x: u8, y: u8) -> (usize, [u8; 3]) {
    let mut k = 0usize;
    let mut a = [1u8, 2u8, 3u8];
    a[{ k = k + 1usize; k }] += y;
    (k, a)
}",
        &["0", "10"],
        "(1, [1, 12, 3])",
    );
}

/// D5: the parser sorts the fields of a struct literal by name, so the field values are evaluated in
/// alphabetical order instead of the order in which they are written.
/// Correct behaviour (source order: `b` first, then `a`): (6, 6). Observed: (5, 6).
#[test]
fn d5_struct_literal_fields_are_evaluated_in_alphabetical_order() {
    assert_all(
        "struct S { a: u8, b: u8 }
pub fn main(x: u8, y: u8) -> (u8, u8) {
    let mut k = x;
    let s = S { b: { k = k + 1u8; k }, a: k };
    (s.a, s.b)
}",
        &["5", "0"],
        "(6, 6)",
    );
}

/// D6 (lower confidence, evaluation order): for `a op= v` on primitive numbers Rust evaluates `v`
/// first and reads `a` afterwards. Garble reads `a` first.
/// Rust: 10 + 1 == 11. Observed: 3 + 1 == 4.
#[test]
fn d6_compound_assignment_reads_the_target_before_the_value_is_evaluated() {
    assert_all(
        "pub fn main(x: u8, y: u8) -> u8 { let mut a = x; a += { a = 10u8; 1u8 }; a }",
        &["3", "0"],
        "11",
    );
}

/// D7 (lower confidence, evaluation order): for `a[i] = v` Rust evaluates `v` first, then `i`.
/// Garble evaluates `i` first. Rust: k == (0 * 2) + 1 == 1. Observed: k == (0 + 1) * 2 == 2.
#[test]
fn d7_assignment_evaluates_the_index_before_the_value() {
    assert_all(
        "pub fn main(x: u8, y: u8) -> (usize, [u8; 3]) {
    let mut k = 0usize;
    let mut a = [1u8, 2u8, 3u8];
    a[{ k = k + 1usize; k }] = { k = k * 2usize; 5u8 };
    (k, a)
}",
        &["0", "0"],
        "(1, [1, 5, 3])",
    );
}
