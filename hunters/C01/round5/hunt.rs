//! Property C01: the compiled circuit returns exactly the value the source program denotes.
//!
//! One failing test per distinct defect found on the unchanged code.
//! (copy to `tests/hunt.rs` and run `cargo test --offline --test hunt`)

use garble_lang::{
    compile,
    literal::Literal,
    token::UnsignedNumType::{U8, Usize},
};

/// D1: the array of an index expression `a[i]` is read *before* the index `i` is evaluated.
///
/// In the Rust-like source semantics the base `a` of `a[i]` is a place: the index is evaluated
/// first and the element is read from the array as it is *after* the index expression has run
/// (rustc prints 9 for `let mut a = [1u8, 2u8]; a[{ a[0] = 9u8; 0usize }]`).
/// The circuit returns the element of the array as it was before the index was evaluated.
#[test]
fn index_base_is_read_before_the_index_is_evaluated() {
    let src = "
pub fn main(x: u8) -> u8 {
    let mut a = [x, 2u8];
    a[{ a[0] = 9u8; 0usize }]
}";
    let prg = compile(src).map_err(|e| e.prettify(src)).unwrap();
    let mut eval = prg.evaluator();
    eval.set_u8(1);
    let out = u8::try_from(eval.run().unwrap()).unwrap();
    // correct: 9 (the assignment inside of the index expression happens before the element is read)
    assert_eq!(out, 9, "a[{{ a[0] = 9; 0 }}] must read the updated array");
}

/// D2: no value of a struct (or enum) parameter with a const-sized array field can be encoded as
/// an argument: `literal_arg`, `parse_arg` and `Evaluator::set_literal` / `parse_literal` all
/// reject every well-typed value, because only the outermost parameter type has its const sizes
/// resolved (`resolve_const_type` does not look into struct / enum definitions, and
/// `Literal::is_of_type` / the literal type check compare an array literal of length 3 with the
/// unresolved type `[u8; N]`).
///
/// Correct behaviour: the literal `S { a: [1, 2, 3], b: true }` is a value of type `S` (N = 3), it
/// is encoded as 25 bits and the circuit returns 2 for i = 1.
#[test]
fn struct_argument_with_const_sized_array_field_cannot_be_encoded() {
    let src = "
const N: usize = 3usize;
struct S { a: [u8; N], b: bool }
pub fn main(s: S, i: usize) -> u8 {
    if s.b { s.a[i] } else { 0u8 }
}";
    let prg = compile(src).map_err(|e| e.prettify(src)).unwrap();
    let value = Literal::Struct(
        "S".to_string(),
        vec![
            (
                "a".to_string(),
                Literal::Array(vec![
                    Literal::NumUnsigned(1, U8),
                    Literal::NumUnsigned(2, U8),
                    Literal::NumUnsigned(3, U8),
                ]),
            ),
            ("b".to_string(), Literal::True),
        ],
    );
    // (the circuit itself is fine: with the bits of the literal it returns the right value)
    let s_bits = value.as_bits(&prg.program, &prg.const_sizes);
    assert_eq!(s_bits.len(), 25);
    let i_bits = prg.literal_arg(1, Literal::NumUnsigned(1, Usize)).unwrap().as_bits();
    let out = prg.parse_output(&prg.circuit.eval(&[s_bits.clone(), i_bits])).unwrap();
    assert_eq!(out, Literal::NumUnsigned(2, U8));

    // correct: all three ways of encoding the argument accept the value
    let by_literal = prg.literal_arg(0, value.clone());
    assert!(by_literal.is_ok(), "literal_arg rejects a value of type S: {:?}", by_literal.err());
    let by_text = prg.parse_arg(0, "S { a: [1, 2, 3], b: true }");
    assert!(by_text.is_ok(), "parse_arg rejects a value of type S: {:?}", by_text.err());
    let mut eval = prg.evaluator();
    assert!(eval.set_literal(value).is_ok(), "set_literal rejects a value of type S");
}

/// D3: a const that is defined in terms of an earlier const whose `+` wrapped is computed from the
/// value *before* the wrap.
///
/// The documentation defines const arithmetic to wrap ("Arithmetic operations on constants are
/// defined to wrap in case of an overflow"), and the program does see `A == 44` for
/// `const A: u8 = 200u8 + 100u8`. `min(A, 100u8)` is therefore 44 - but the compiler evaluates const
/// expressions in 64 bits and remembers 300 for `A`, so `B` becomes `min(300, 100) = 100`.
/// (The same happens within one definition: `max(200u8 + 100u8, 50u8)` is 44 instead of 50, and for
/// signed consts: `const A: i8 = 100i8 + 100i8; const B: i8 = max(A, 0i8)` gives -56 instead of 0.)
#[test]
fn const_defined_by_a_wrapped_const_uses_the_value_before_the_wrap() {
    let src = "
const A: u8 = 200u8 + 100u8;
const B: u8 = min(A, 100u8);
pub fn main(x: u8) -> (u8, u8) {
    (x + A, x + B)
}";
    let prg = compile(src).map_err(|e| e.prettify(src)).unwrap();
    let mut eval = prg.evaluator();
    eval.set_u8(0);
    let out = eval.run().unwrap().into_literal().unwrap();
    // `A` is 44 (the circuit agrees with that), so `B = min(A, 100)` is 44 as well
    assert_eq!(
        out,
        Literal::Tuple(vec![Literal::NumUnsigned(44, U8), Literal::NumUnsigned(44, U8)])
    );
}

/// D4 (lower confidence, API): a program whose `main` takes a single array of non-scalar elements
/// cannot be evaluated through `Evaluator` / `parse_arg`.
///
/// A single array parameter is compiled as one input party per element, but `Evaluator::set_literal`,
/// `Evaluator::parse_literal`, `GarbleProgram::parse_arg` and `literal_arg` still work per
/// *parameter*: the whole array is accepted as the input of one party (and `run()` then fails with
/// `UnexpectedNumberOfParties`, `circuit.eval(&[bits])` panics), while the literal of a single
/// element is rejected as not being of the array type. For scalar elements there are `set_u8` & co,
/// for tuples / structs / enums there is no way to provide the input of a party.
///
/// Correct behaviour: either the array literal is split into the inputs of the parties or the
/// element literals are accepted one by one; then the circuit returns 1 for [(1, true), (2, true)].
#[test]
fn single_array_of_tuples_cannot_be_evaluated() {
    let src = "
pub fn main(a: [(u8, bool); 2]) -> u8 {
    if a[1].1 { a[0].0 } else { a[1].0 }
}";
    let prg = compile(src).map_err(|e| e.prettify(src)).unwrap();
    let elem = |n: u64, b: bool| {
        Literal::Tuple(vec![
            Literal::NumUnsigned(n, U8),
            if b { Literal::True } else { Literal::False },
        ])
    };
    // route 1: the whole array as the argument of the (only) parameter
    let mut eval = prg.evaluator();
    let whole = eval
        .set_literal(Literal::Array(vec![elem(1, true), elem(2, true)]))
        .ok()
        .and_then(|_| eval.run().ok())
        .and_then(|out| out.into_literal().ok());
    // route 2: one literal per party
    let mut eval = prg.evaluator();
    let per_party = eval
        .set_literal(elem(1, true))
        .and_then(|_| eval.set_literal(elem(2, true)))
        .ok()
        .and_then(|_| eval.run().ok())
        .and_then(|out| out.into_literal().ok());
    let expected = Some(Literal::NumUnsigned(1, U8));
    assert!(
        whole == expected || per_party == expected,
        "neither the array literal ({whole:?}) nor the element literals ({per_party:?}) can be used"
    );
}
