//! Hunt H02 / property C02: "panic iff the source semantics fail; first failure wins; untaken code
//! is silent". One test per distinct defect; every test FAILS on the unchanged code.
//!
//! Copy to `tests/hunt.rs` and run with `cargo test --offline --test hunt`.

use garble_lang::{circuit::PanicReason, compile, eval::EvalError};

/// Compiles `src`, runs `main` with the given literals and returns either the printed result or the
/// decoded panic `(reason, start (line, col), end (line, col))`.
fn run(src: &str, args: &[&str]) -> Result<String, (PanicReason, (usize, usize), (usize, usize))> {
    let prg = compile(src).unwrap_or_else(|e| panic!("compile error: {}", e.prettify(src)));
    let mut ev = prg.evaluator();
    for a in args {
        ev.parse_literal(a).unwrap();
    }
    let out = ev.run().unwrap();
    match out.into_literal() {
        Ok(l) => Ok(format!("{l}")),
        Err(EvalError::Panic(p)) => Err((p.reason, p.panicked_at.start, p.panicked_at.end)),
        Err(e) => panic!("unexpected eval error: {e:?}"),
    }
}

/// DEFECT 1: `x * -n` (n a small literal) is rewritten to `-(x + x + ... + x)`, which overflows in
/// the intermediate sum when the true product is exactly the smallest value.
/// Correct: 64i8 * -2i8 == -128i8 (representable, `64i8.checked_mul(-2) == Some(-128)`), no panic.
#[test]
fn d1_signed_mul_by_negative_literal_false_overflow() {
    let src = "pub fn main(x: i8) -> i8 { x * -2i8 }";
    assert_eq!(run(src, &["64i8"]), Ok("-128".to_string()));
    let src = "pub fn main(x: i8) -> i8 { -4i8 * x }";
    assert_eq!(run(src, &["32i8"]), Ok("-128".to_string()));
}

/// DEFECT 2: multiplication by a small literal `n` compiles the other operand `n` times, so its side
/// effects (assignments inside if / match / block operands) run `n` times.
/// Correct: the operand is evaluated once: m = 100 + 100 = 200, r = 2, no panic -> (200, 2).
/// Observed: `m + 100u8` is executed twice -> spurious Overflow panic.
#[test]
fn d2_mul_by_literal_duplicates_side_effects_of_operand() {
    let src = "
pub fn main(m: u8, p: bool) -> (u8, u8) {
    let mut m = m;
    let r = (if p { m = m + 100u8; 1u8 } else { 1u8 }) * 2u8;
    (m, r)
}";
    assert_eq!(run(src, &["100u8", "true"]), Ok("(200, 2)".to_string()));
}

/// DEFECT 3: `x <= y` / `x >= y` are desugared by the parser to `(x < y) | (x == y)` with both
/// operands cloned, so each operand is evaluated twice (side effects twice).
/// Correct: m = 126 + 1 = 127, 127 <= 0 is false, no panic -> (127, false).
/// Observed: `m + 1i8` is executed twice -> spurious Overflow panic (for m = 5 the result is (7, false)).
#[test]
fn d3_less_or_equal_evaluates_operands_twice() {
    let src = "
pub fn main(m: i8, p: bool) -> (i8, bool) {
    let mut m = m;
    let r = (if p { m = m + 1i8; m } else { m }) <= 0i8;
    (m, r)
}";
    assert_eq!(run(src, &["126i8", "true"]), Ok("(127, false)".to_string()));
}

/// DEFECT 4: `arr[idx] += e` is desugared to `arr[idx] = arr[idx] + e` with the index expression
/// cloned, so the index expression is evaluated twice.
/// Correct (as in Rust): idx is evaluated once: m = 127, arr = [2, 2], no panic.
/// Observed: spurious Overflow panic (for m = 5 the result is (7, [2, 2]) instead of (6, [2, 2])).
#[test]
fn d4_compound_assignment_evaluates_index_twice() {
    let src = "
pub fn main(m: i8, p: bool) -> (i8, [i8; 2]) {
    let mut m = m;
    let mut arr = [1i8, 2i8];
    arr[if p { m = m + 1i8; 0usize } else { 1usize }] += 1i8;
    (m, arr)
}";
    assert_eq!(run(src, &["126i8", "true"]), Ok("(127, [2, 2])".to_string()));
}

/// DEFECT 5: the fields of a struct literal are compiled in the order of the struct *declaration*,
/// not in the order in which they are written, so the wrong "first" failure is reported.
/// Correct: `y: a / b` (line 4) is written and hence evaluated first -> Division By Zero on line 4.
/// Observed: OutOfBounds of `arr[2usize]` on line 5.
#[test]
fn d5_struct_literal_fields_evaluated_in_declaration_order() {
    let src = "struct S { x: u8, y: u8 }
pub fn main(a: u8, b: u8) -> u8 {
    let arr = [1u8, 2u8];
    let s = S {
        y: a / b,
        x: arr[2usize] };
    s.x + s.y
}";
    match run(src, &["1u8", "0u8"]) {
        Err((reason, start, _)) => {
            assert_eq!(reason, PanicReason::DivByZero);
            assert_eq!(start.0, 4);
        }
        Ok(r) => panic!("expected a panic, got {r}"),
    }
}

/// DEFECT 6: a variable bound to a number without type suffix is lowered as a 32-bit value and is
/// silently truncated (no range check by the type checker, no panic) when it is used as a narrower
/// type. The truncated value then causes panics that do not exist in the source / hides panics.
/// Correct: `x / 256` has no division by zero (or the program must be rejected like `x / 256` is).
/// Observed: Division By Zero panic, because 256 is truncated to 0u8.
#[test]
fn d6_untyped_number_variable_truncated_false_div_by_zero() {
    let src = "pub fn main(x: u8) -> u8 { let d = 256; x / d }";
    let res = std::panic::catch_unwind(|| compile(src).is_ok());
    if let Ok(true) = res {
        // accepted as well-typed, so it must not report a failure that the source does not contain
        let r = run(src, &["1u8"]);
        assert!(r.is_ok(), "spurious panic: {r:?}");
    }
    // same root cause, the other direction: a shift by 257 must fail (amount >= bit width), but the
    // amount is truncated to 1 and the circuit returns 2 without a panic:
    let src = "pub fn main(x: u8) -> u8 { let s = 257; x << s }";
    if let Ok(true) = std::panic::catch_unwind(|| compile(src).is_ok()) {
        assert!(run(src, &["1u8"]).is_err(), "shift by 257 did not panic");
    }
}

/// DEFECT 7: an unsuffixed unsigned number >= 2^31 bound to a variable is stored in 32 wires and is
/// *sign*-extended when the variable is used as an i64, i.e. 3000000000 becomes -1294967296.
/// Correct: i64::MIN + 3000000000 == -9223372033854775808, no overflow (also valid Rust).
/// Observed: Overflow panic (and `0 + k` yields -1294967296).
#[test]
fn d7_untyped_number_variable_sign_extended_false_overflow() {
    let src = "pub fn main(z: i64) -> i64 { let k = 3000000000; z + k }";
    assert_eq!(
        run(src, &["-9223372036854775808i64"]),
        Ok("-9223372033854775808".to_string())
    );
}

/// DEFECT 8 (low severity): the scanner starts counting columns at 0 on the first line but at 1 on
/// all following lines, so the location of a panic on the very first line of a program is reported
/// one column too far to the left.
/// Correct: the same code must get the same columns, whether or not a newline precedes it.
#[test]
fn d8_panic_location_on_first_line_is_off_by_one_column() {
    let code = "pub fn main(x: u8) -> u8 { x + 255u8 }";
    let on_first_line = run(code, &["1u8"]).unwrap_err();
    let on_second_line = run(&format!("\n{code}"), &["1u8"]).unwrap_err();
    // `x + 255u8` spans the (0-based) columns 27..36 in both programs
    assert_eq!((on_second_line.1.1, on_second_line.2.1), (27, 36));
    assert_eq!((on_first_line.1.1, on_first_line.2.1), (27, 36));
}

/// DEFECT 9 (low confidence, depends on the intended evaluation order): in `arr[i] = v` the index
/// expression and its bounds check are compiled before the value expression. In Rust (which Garble
/// "mostly works like") the right-hand side is evaluated first, then the index and the bounds check.
/// Correct (Rust order): `a / b` fails first -> Division By Zero on line 3.
/// Observed: OutOfBounds.
#[test]
fn d9_assignment_checks_index_bounds_before_evaluating_value() {
    let src = "pub fn main(a: u8, b: u8) -> [u8; 2] {
    let mut arr = [1u8, 2u8];
    arr[2usize] =
        a / b;
    arr
}";
    match run(src, &["1u8", "0u8"]) {
        Err((reason, _, _)) => assert_eq!(reason, PanicReason::DivByZero),
        Ok(r) => panic!("expected a panic, got {r}"),
    }
}

/// DEFECT 10 (low confidence): `i8::MIN % -1` evaluates to 0 without a panic, whereas `MIN / -1`
/// panics with Overflow. In Rust `i8::MIN % -1` is an arithmetic overflow
/// (`i8::MIN.checked_rem(-1) == None`, the operation panics in all build modes).
#[test]
fn d10_signed_min_rem_minus_one_does_not_panic() {
    let src = "pub fn main(x: i8, y: i8) -> i8 { x % y }";
    assert!(run(src, &["-128i8", "-1i8"]).is_err());
}

/// DEFECT 11 (edge case): if all parameters of `main` have a size of 0 bits, the circuit has no input
/// wire from which the constant `false` could be built (`Gate::Xor(0, 0)` refers to itself) and
/// `Circuit::eval` crashes with `Option::unwrap()` on `None` instead of reporting the Overflow.
#[test]
fn d11_evaluation_crashes_without_input_bits() {
    let src = "pub fn main(a: (), b: ()) -> u8 { 200u8 + 100u8 }";
    let r = std::panic::catch_unwind(|| run(src, &["()", "()"]));
    match r {
        Ok(Err((reason, _, _))) => assert_eq!(reason, PanicReason::Overflow),
        Ok(Ok(v)) => panic!("expected an Overflow panic, got {v}"),
        Err(_) => panic!("the evaluator crashed instead of reporting the Overflow panic"),
    }
}
