//! Property C02: panic iff the source semantics fail; first failure wins; untaken code is silent.
//!
//! One test per distinct defect; every test FAILS on the unchanged code.
//! (copy to tests/hunt.rs and run `cargo test --offline --test hunt`)

use garble_lang::{circuit::PanicReason, compile, eval::EvalError, token::MetaInfo};

#[derive(Debug, PartialEq)]
enum Outcome {
    /// the program was rejected at compile time
    Rejected,
    /// the circuit evaluated to this literal (rendered as Garble source)
    Value(String),
    /// the circuit reported a panic
    Panic(PanicReason, MetaInfo),
}

fn run(src: &str, args: &[&str]) -> Outcome {
    let prg = match compile(src) {
        Ok(prg) => prg,
        Err(_) => return Outcome::Rejected,
    };
    let mut eval = prg.evaluator();
    for arg in args {
        eval.parse_literal(arg).unwrap();
    }
    match eval.run().unwrap().into_literal() {
        Ok(literal) => Outcome::Value(literal.to_string()),
        Err(EvalError::Panic(p)) => Outcome::Panic(p.reason, p.panicked_at),
        Err(e) => panic!("unexpected error: {e:?}"),
    }
}

/// location of the first occurrence of `needle` in `src` (only used for lines after the first one,
/// where the columns of the scanner are the 0-based columns of the text)
fn span(src: &str, needle: &str) -> MetaInfo {
    for (l, line) in src.lines().enumerate() {
        if let Some(c) = line.find(needle) {
            return MetaInfo {
                start: (l, c),
                end: (l, c + needle.len()),
            };
        }
    }
    panic!("'{needle}' does not occur in the program");
}

/// DEFECT 1: multiplication by a negative literal `-n` (n a power of two smaller than the bit
/// width) is compiled as `-(x + x + ... + x)`. The positive intermediate sum overflows although
/// the product itself (the smallest value of the type) is representable.
///
/// Correct behaviour: 64i8 * -2i8 == -128i8, no panic (this is what `x * y` with y = -2 gives).
#[test]
fn mul_by_negative_literal_panics_although_product_is_representable() {
    // sanity: the general multiplier gets it right
    assert_eq!(
        run("pub fn main(x: i8, y: i8) -> i8 { x * y }", &["64i8", "-2i8"]),
        Outcome::Value("-128".to_string())
    );
    for (src, arg, expected) in [
        ("pub fn main(x: i8) -> i8 { x * -2i8 }", "64i8", "-128"),
        ("pub fn main(x: i8) -> i8 { -4i8 * x }", "32i8", "-128"),
        ("pub fn main(x: i16) -> i16 { x * -8i16 }", "4096i16", "-32768"),
        ("pub fn main(x: i32) -> i32 { x * -16i32 }", "134217728i32", "-2147483648"),
        ("pub fn main(x: i8) -> i8 { -2i8 * 64i8 }", "0i8", "-128"),
    ] {
        assert_eq!(run(src, &[arg]), Outcome::Value(expected.to_string()), "{src}");
    }
}

/// DEFECT 2a: a variable that is bound to a number without type suffix stays a 32-bit value and is
/// cut down to the number type of each use. Arithmetic on such variables is carried out with 32
/// bits, so an overflow of the type that the result is used as goes unreported.
///
/// Correct behaviour: `b` is used as (and therefore is) a `u8`; 100 * 3 does not fit into a u8,
/// so either the program is rejected or evaluating it panics with an overflow -- exactly like the
/// same computation without the intermediate `let b` does. Never the wrapped value 44.
#[test]
fn overflow_of_unsuffixed_literal_variable_is_not_reported() {
    // without the second `let` the overflow is reported:
    let inline = "pub fn main(x: u8) -> u8 { let a = 100; a * 3 }";
    assert!(matches!(
        run(inline, &["0u8"]),
        Outcome::Panic(PanicReason::Overflow, _)
    ));
    let src = "pub fn main(x: u8) -> u8 { let a = 100; let b = a * 3; b }";
    let outcome = run(src, &["0u8"]);
    assert!(
        matches!(
            outcome,
            Outcome::Rejected | Outcome::Panic(PanicReason::Overflow, _)
        ),
        "300 does not fit into a u8, but the circuit silently produced {outcome:?}"
    );
}

/// DEFECT 2b (same root cause as 2a, opposite direction): because the arithmetic on variables
/// bound to unsuffixed numbers is done with 32 bits, the circuit panics although the type that the
/// values are used as can represent the result; and a value > 255 that is used as `u8` divisor is
/// cut down to 0 and reported as a division by zero that does not exist in the source.
///
/// Correct behaviour: `x + (3000000000 + 3000000000)` as u64 is 6000000005 (which is what the
/// circuit computes without the `let`s); dividing by 256 can never be a division by zero.
#[test]
fn unsuffixed_literal_variable_causes_spurious_panic() {
    let inline = "pub fn main(x: u64) -> u64 { x + (3000000000 + 3000000000) }";
    assert_eq!(run(inline, &["5u64"]), Outcome::Value("6000000005".to_string()));
    let src = "pub fn main(x: u64) -> u64 { let a = 3000000000; let b = a + a; x + b }";
    assert_eq!(run(src, &["5u64"]), Outcome::Value("6000000005".to_string()));

    let src = "pub fn main(x: u8) -> u8 { let z = 256; x / z }";
    let outcome = run(src, &["7u8"]);
    assert!(
        !matches!(outcome, Outcome::Panic(PanicReason::DivByZero, _)),
        "no divisor is zero in the source, but the circuit reports {outcome:?}"
    );
}

/// DEFECT 3: `a[i] op= v` is desugared by the parser into `a[i] = a[i] op v` with the index
/// expression duplicated, so an index expression with a side effect is evaluated twice: the side
/// effect happens twice and can fail the second time although the source evaluates it only once.
///
/// Correct behaviour: the index is evaluated exactly once: k == 200, a[0] == 2, result 202, no
/// panic.
#[test]
fn compound_assignment_evaluates_index_twice() {
    let src = "
pub fn main(x: u8) -> u8 {
    let mut k = x;
    let mut a = [1u8, 2u8, 3u8];
    a[{ k = k + 100u8; 0 }] += 1u8;
    a[0] + k
}";
    assert_eq!(run(src, &["100u8"]), Outcome::Value("202".to_string()));
}

/// DEFECT 4: the fields of a struct literal are not evaluated in the order in which they are
/// written (the parser sorts them by name, the compiler then uses the order of the struct
/// definition), so with two failing fields the panic that is reported is not the one of the first
/// failing operation (and side effects of field expressions happen in the wrong order).
///
/// Correct behaviour: `x + 255u8` is written (and evaluated) first, so for x == 1 the reported
/// panic is the overflow of `x + 255u8`, not the division by zero of `x / 0u8`.
#[test]
fn struct_literal_fields_are_not_evaluated_in_source_order() {
    let src = "
struct S { a: u8, b: u8 }
pub fn main(x: u8) -> u8 {
    let s = S { b: x + 255u8, a: x / 0u8 };
    s.a
}";
    assert_eq!(
        run(src, &["1u8"]),
        Outcome::Panic(PanicReason::Overflow, span(src, "x + 255u8"))
    );
}

/// DEFECT 4 (side-effect variant, same root cause): source order gives b == 2, a == 4.
#[test]
fn struct_literal_side_effects_happen_in_definition_order() {
    let src = "
struct S { a: u8, b: u8 }
pub fn main(x: u8) -> u8 {
    let mut k = x;
    let s = S { b: { k = k + 1u8; k }, a: { k = k * 2u8; k } };
    s.a
}";
    assert_eq!(run(src, &["1u8"]), Outcome::Value("4".to_string()));
}

/// DEFECT 5 (low confidence, acknowledged by a TODO in `resolve_const_expr_*`): an arithmetic
/// overflow in a `const` definition wraps around silently instead of being reported.
///
/// Correct behaviour: 200u8 + 100u8 does not fit into a u8, so the program is rejected (or the
/// evaluation panics); the constant must never silently be 44.
#[test]
fn overflow_in_const_definition_wraps_silently() {
    let src = "
const A: u8 = 200u8;
const B: u8 = A + 100u8;
pub fn main(x: u8) -> u8 { x + B }";
    let outcome = run(src, &["1u8"]);
    assert!(
        matches!(outcome, Outcome::Rejected | Outcome::Panic(PanicReason::Overflow, _)),
        "200u8 + 100u8 overflows, but the circuit silently produced {outcome:?}"
    );
}
