// Property C02 (panic iff the source semantics fail; first failure wins; untaken code is silent).
//
// No defect of the unchanged code was found for this property, so this file deliberately contains
// no failing #[test]. The passing sweeps that were used are kept next to this file:
//   support_gen.rs   - random program generator + reference interpreter (copy to tests/ to run)
//   support_probe.rs - hand-written probes and the join_iter sweep (copy to tests/ to run)
// See notes.md for what was covered.
