//! Property C03: integer operators and casts are bit-exact at every width and overflow boundary.
//! One test per distinct defect; every test FAILS on the unchanged code.
//! (Copy to tests/hunt.rs and run `cargo test --offline --test hunt`.)

use garble_lang::{compile, eval::EvalError, literal::Literal, token::SignedNumType::*, token::UnsignedNumType::*};

/// Outcome of compiling + running a one-argument program.
#[derive(Debug, PartialEq)]
enum Outcome {
    /// The program was rejected at compile time.
    Rejected,
    /// The circuit panicked (Overflow / DivByZero / ...).
    Panicked(String),
    /// The circuit produced this literal.
    Value(Literal),
}

fn run(src: &str, arg: Literal) -> Outcome {
    let prg = match compile(src) {
        Ok(prg) => prg,
        Err(_) => return Outcome::Rejected,
    };
    let mut eval = prg.evaluator();
    eval.set_literal(arg).expect("argument has the type of the parameter");
    match eval.run().expect("circuit evaluates").into_literal() {
        Ok(l) => Outcome::Value(l),
        Err(EvalError::Panic(p)) => Outcome::Panicked(format!("{:?}", p.reason)),
        Err(e) => panic!("unexpected eval error: {e:?}"),
    }
}

/// DEFECT 1: `x * <negative literal>` reports an Overflow although the exact product is the
/// smallest value of the type (which is representable): 64i8 * -2 == -128.
///
/// Correct behaviour: `a * -2` returns -128 for a == 64 (just like `a * b` with b == -2 does, and
/// like Rust's `64i8.checked_mul(-2) == Some(-128)`).
#[test]
fn mul_by_small_negative_literal_reports_false_overflow() {
    for src in [
        "pub fn main(a: i8) -> i8 { a * -2 }",
        "pub fn main(a: i8) -> i8 { a * -2i8 }",
        "pub fn main(a: i8) -> i8 { -2 * a }",
    ] {
        assert_eq!(
            run(src, Literal::NumSigned(64, I8)),
            Outcome::Value(Literal::NumSigned(-128, I8)),
            "{src}"
        );
    }
    // the same at other widths / multipliers:
    assert_eq!(
        run("pub fn main(a: i8) -> i8 { a * -4i8 }", Literal::NumSigned(32, I8)),
        Outcome::Value(Literal::NumSigned(-128, I8)),
    );
    assert_eq!(
        run("pub fn main(a: i64) -> i64 { a * -2 }", Literal::NumSigned(1 << 62, I64)),
        Outcome::Value(Literal::NumSigned(i64::MIN, I64)),
    );
}

/// DEFECT 2: a number literal without type suffix that is the operand of a cast is lowered as a
/// 32-bit value without any range check, so literals >= 2^32 are silently truncated to their low
/// 32 bits: `9223372036854775807 as i64` is 4294967295, `5000000000 as u64` is 705032704.
///
/// Correct behaviour: the cast yields the value of the literal (as in Rust, where the literal
/// takes on the target type of the cast), or the program is rejected; never a different number.
#[test]
fn unsuffixed_literal_above_32_bits_is_truncated_by_cast() {
    let out = run("pub fn main(a: bool) -> i64 { 9223372036854775807 as i64 }", Literal::True);
    assert!(
        out == Outcome::Value(Literal::NumSigned(i64::MAX, I64)) || out == Outcome::Rejected,
        "9223372036854775807 as i64 => {out:?}"
    );
    let out = run("pub fn main(a: bool) -> u64 { 5000000000 as u64 }", Literal::True);
    assert!(
        out == Outcome::Value(Literal::NumUnsigned(5_000_000_000, U64)) || out == Outcome::Rejected,
        "5000000000 as u64 => {out:?}"
    );
}

/// DEFECT 3: a constant sub-expression without type suffixes that gets its type only from the
/// other operand of a comparison (or from being a shift amount, or in a `let` without type
/// annotation) is computed with 32 bits and then silently truncated to the operand type, without
/// the overflow check of the operator: for `a: u8`, `a == (255 + 1)` is true for a == 0,
/// `a << (255 + 1)` is `a` and `let r = a + (255 + 1); r` is `a`.
///
/// Correct behaviour: 255 + 1 is not representable as u8 (the type both literals take on), so the
/// program is rejected or panics with Overflow (as `pub fn main(a: u8) -> u8 { a + (255 + 1) }`
/// already does).
#[test]
fn untyped_constant_subexpression_is_truncated_without_overflow() {
    for (src, arg) in [
        ("pub fn main(a: u8) -> bool { a == (255 + 1) }", 0),
        ("pub fn main(a: u8) -> u8 { a << (255 + 1) }", 1),
        ("pub fn main(a: u8) -> u8 { let r = a + (255 + 1); r }", 7),
    ] {
        let out = run(src, Literal::NumUnsigned(arg, U8));
        assert!(
            matches!(out, Outcome::Rejected | Outcome::Panicked(_)),
            "{src} with a = {arg} => {out:?}"
        );
    }
    // i8: 127 + 1 wraps to -128, so 0 > (127 + 1) is reported as true
    let out = run("pub fn main(a: i8) -> bool { a > (127 + 1) }", Literal::NumSigned(0, I8));
    assert!(matches!(out, Outcome::Rejected | Outcome::Panicked(_)), "0 > (127 + 1) => {out:?}");
}

/// DEFECT 4: `usize` is a 32-bit type in Garble, but the scanner accepts `usize` literals up to
/// 2^64 - 1; they are silently truncated to 32 bits: `7 < 4294967296usize` is false and
/// `4294967296usize as u64` is 0.
///
/// Correct behaviour: the literal is rejected (like `4294967296u32` is), or at least compared
/// with its exact value (7 < 4294967296 is true).
#[test]
fn usize_literal_above_32_bits_is_truncated() {
    let out = run("pub fn main(a: usize) -> bool { a < 4294967296usize }", Literal::NumUnsigned(7, Usize));
    assert!(
        out == Outcome::Rejected || out == Outcome::Value(Literal::True),
        "7 < 4294967296usize => {out:?}"
    );
    let out = run("pub fn main(a: usize) -> u64 { 4294967296usize as u64 }", Literal::NumUnsigned(7, Usize));
    assert!(
        out == Outcome::Rejected || out == Outcome::Value(Literal::NumUnsigned(4294967296, U64)),
        "4294967296usize as u64 => {out:?}"
    );
}

/// DEFECT 5: a variable bound to a number without type suffix (`let c = 300;`) can be used as an
/// operand of any number type; its 32-bit value is then silently truncated to that type without
/// a range check: for `a: u8`, `let c = 300; a + c` is a + 44 (1 + 300 == 45).
///
/// Correct behaviour: 300 is not a u8, so the program is rejected (as `a + 300` is, and as Rust
/// does), or at least panics with Overflow; it must not return 45.
#[test]
fn let_bound_untyped_number_is_truncated_to_operand_type() {
    let src = "pub fn main(a: u8) -> u8 { let c = 300; a + c }";
    let out = run(src, Literal::NumUnsigned(1, U8));
    assert!(matches!(out, Outcome::Rejected | Outcome::Panicked(_)), "{src} => {out:?}");

    let src = "pub fn main(a: i8) -> i8 { let c = 200; a + c }";
    let out = run(src, Literal::NumSigned(0, I8));
    assert!(matches!(out, Outcome::Rejected | Outcome::Panicked(_)), "{src} => {out:?}");
}

/// DEFECT 6: a variable bound to a number without type suffix in 2^31..2^32 and then used as an
/// i64 is sign-extended from 32 bits, although the value fits into i64:
/// `let c = 3000000000; a + c` is a - 1294967296.
///
/// Correct behaviour: 1 + 3000000000 == 3000000001 (as `a + 3000000000` returns, and as in Rust
/// where `c` is an i64), or the program is rejected; never a negative number.
#[test]
fn let_bound_untyped_number_is_sign_extended_as_i64() {
    let src = "pub fn main(a: i64) -> i64 { let c = 3000000000; a + c }";
    let out = run(src, Literal::NumSigned(1, I64));
    assert!(
        out == Outcome::Value(Literal::NumSigned(3_000_000_001, I64)) || out == Outcome::Rejected,
        "{src} => {out:?}"
    );
}

/// DEFECT 7: `+` and `-` in `const` definitions wrap around silently instead of being checked:
/// `const C: u8 = 200u8 + 100u8;` is 44, `const C: i8 = 127i8 + 1i8;` is -128.
///
/// Correct behaviour: the const definition is rejected (the sum is not representable), like
/// Rust rejects it ("this arithmetic operation will overflow"); it must not evaluate to 44.
#[test]
fn const_definition_arithmetic_wraps_around() {
    let src = "const C: u8 = 200u8 + 100u8;\npub fn main(a: u8) -> u8 { a + C }";
    let out = run(src, Literal::NumUnsigned(0, U8));
    assert!(matches!(out, Outcome::Rejected | Outcome::Panicked(_)), "{src} => {out:?}");

    let src = "const C: i8 = 127i8 + 1i8;\npub fn main(a: i8) -> i8 { a + C }";
    let out = run(src, Literal::NumSigned(0, I8));
    assert!(matches!(out, Outcome::Rejected | Outcome::Panicked(_)), "{src} => {out:?}");
}
