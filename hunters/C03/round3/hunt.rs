//! Property C03: integer operators and casts are bit-exact at every width and overflow boundary.
//!
//! One #[test] per distinct defect; every test FAILS on the unchanged code.
//! (Copy this file to tests/ and run `cargo test --offline --test hunt`.)

use garble_lang::{GarbleProgram, circuit::PanicReason, compile, eval::EvalError};

#[derive(Debug, PartialEq, Eq)]
enum Out {
    Val(Vec<bool>),
    Panic(PanicReason),
}

fn bits_u(n: u64, bits: usize) -> Vec<bool> {
    (0..bits).rev().map(|i| (n >> i) & 1 == 1).collect()
}

fn bits_i(n: i64, bits: usize) -> Vec<bool> {
    bits_u(n as u64, bits)
}

fn out(res: Result<garble_lang::eval::EvalOutput<'_>, EvalError>) -> Out {
    match Vec::<bool>::try_from(res.expect("evaluation failed")) {
        Ok(bits) => Out::Val(bits),
        Err(EvalError::Panic(p)) => Out::Panic(p.reason),
        Err(e) => panic!("unexpected eval error: {e:?}"),
    }
}

fn compile_ok(src: &str) -> GarbleProgram {
    compile(src).unwrap_or_else(|e| panic!("{}", e.prettify(src)))
}

/// DEFECT 1: multiplication by a negative literal `-k` (0 < k < bit width) is rewritten to
/// `-(x + x + ... + x)`. If the exact product is the smallest value of the type (e.g. 64 * -2 ==
/// -128 for i8), the intermediate sum (+128) overflows and the circuit panics, although the
/// product is representable.
///
/// Correct behaviour: `x * -2i8` with x == 64 is -128 (as `64i8.checked_mul(-2) == Some(-128)`),
/// exactly like `x * y` with y == -2 as an input (which is computed correctly).
#[test]
fn mul_by_negative_literal_with_min_value_product() {
    for (src, ty_bits) in [
        ("pub fn main(x: i8) -> i8 { x * -2i8 }", 8),
        ("pub fn main(x: i8) -> i8 { -2i8 * x }", 8),
        ("pub fn main(x: i8) -> i8 { x * -2 }", 8),
    ] {
        let prg = compile_ok(src);
        let mut ev = prg.evaluator();
        ev.set_i8(64);
        assert_eq!(out(ev.run()), Out::Val(bits_i(-128, ty_bits)), "{src} with x = 64");
    }
    // the same at the other widths:
    let prg = compile_ok("pub fn main(x: i16) -> i16 { x * -4i16 }");
    let mut ev = prg.evaluator();
    ev.set_i16(8192);
    assert_eq!(out(ev.run()), Out::Val(bits_i(i16::MIN as i64, 16)));

    let prg = compile_ok("pub fn main(x: i32) -> i32 { x * -16i32 }");
    let mut ev = prg.evaluator();
    ev.set_i32(1 << 27);
    assert_eq!(out(ev.run()), Out::Val(bits_i(i32::MIN as i64, 32)));

    let prg = compile_ok("pub fn main(x: i64) -> i64 { x * -32i64 }");
    let mut ev = prg.evaluator();
    ev.set_i64(1 << 58);
    assert_eq!(out(ev.run()), Out::Val(bits_i(i64::MIN, 64)));
}

/// DEFECT 2: a literal without a type suffix that is not given a type by its context (the operand
/// of a cast, the value of a `let`) is lowered as a 32-bit number without any range check, so a
/// literal that needs more than 32 bits is silently truncated.
///
/// Correct behaviour: `5000000000 as u64` is 5000000000 (as in Rust, where the literal takes on the
/// type of the cast), or at the very least the program is rejected - never the value 705032704.
#[test]
fn cast_of_unsuffixed_literal_wider_than_32_bits_is_truncated() {
    let src = "pub fn main(x: u64) -> u64 { x + 5000000000 as u64 }";
    if let Ok(prg) = compile(src) {
        let mut ev = prg.evaluator();
        ev.set_u64(0);
        assert_eq!(out(ev.run()), Out::Val(bits_u(5_000_000_000, 64)), "{src}");
    }
    let src = "pub fn main(x: i64) -> i64 { x + -5000000000 as i64 }";
    if let Ok(prg) = compile(src) {
        let mut ev = prg.evaluator();
        ev.set_i64(0);
        assert_eq!(out(ev.run()), Out::Val(bits_i(-5_000_000_000, 64)), "{src}");
    }
}

/// DEFECT 3: a variable bound to a literal without a type suffix (`let a = 3000000000;`) is stored
/// as 32 wires and takes on the type of every use. If it is used as an i64, the 32 wires are
/// *sign*-extended (the extension follows the new type, not the value), so the unsigned literal
/// 3000000000 becomes -1294967296.
///
/// Correct behaviour: `a + x` with x == 0 is 3000000000 (in Rust `a` is inferred to be an i64), or
/// the program is rejected - never a different number.
#[test]
fn let_bound_unsuffixed_literal_used_as_i64_is_sign_extended() {
    let src = "pub fn main(x: i64) -> i64 { let a = 3000000000; a + x }";
    if let Ok(prg) = compile(src) {
        let mut ev = prg.evaluator();
        ev.set_i64(0);
        assert_eq!(out(ev.run()), Out::Val(bits_i(3_000_000_000, 64)), "{src}");
    }
    // the same for a comparison: 3000000000 < 0 must be false
    let src = "pub fn main(x: i64) -> bool { let a = 3000000000; a < x }";
    if let Ok(prg) = compile(src) {
        let mut ev = prg.evaluator();
        ev.set_i64(0);
        assert_eq!(out(ev.run()), Out::Val(vec![false]), "{src}");
    }
    // and a literal above 32 bits is truncated: 2 * 4294967296 must not be 0
    let src = "pub fn main(x: u64) -> u64 { let a = 4294967296; a * x }";
    if let Ok(prg) = compile(src) {
        let mut ev = prg.evaluator();
        ev.set_u64(2);
        assert_eq!(out(ev.run()), Out::Val(bits_u(8_589_934_592, 64)), "{src}");
    }
}

/// DEFECT 4: a variable bound to an unsuffixed literal (or to arithmetic on such literals) is
/// truncated to the width of the type it is used at, without any range check and without an
/// Overflow panic: `let a = 300; x + a` (x: u8) computes `x + 44`.
///
/// Correct behaviour: the program is rejected (Rust: "literal out of range for `u8`") or panics
/// with Overflow - it never yields a value, because 300 + x is not representable as u8 and 300
/// is not a u8. Likewise `x << s` with `s = 256` is never a value.
#[test]
fn let_bound_unsuffixed_literal_is_narrowed_without_overflow() {
    let src = "pub fn main(x: u8) -> u8 { let a = 300; x + a }";
    if let Ok(prg) = compile(src) {
        let mut ev = prg.evaluator();
        ev.set_u8(1);
        let res = out(ev.run());
        assert!(matches!(res, Out::Panic(PanicReason::Overflow)), "{src} -> {res:?}");
    }
    // 200 + 200 overflows an u8, but is computed with 32 bits and then cut down to 144:
    let src = "pub fn main(x: u8) -> u8 { let a = 200; let b = a + a; x + b }";
    if let Ok(prg) = compile(src) {
        let mut ev = prg.evaluator();
        ev.set_u8(1);
        let res = out(ev.run());
        assert!(matches!(res, Out::Panic(PanicReason::Overflow)), "{src} -> {res:?}");
    }
    // 200 is not an i8:
    let src = "pub fn main(x: i8) -> i8 { let a = 200; x + a }";
    if let Ok(prg) = compile(src) {
        let mut ev = prg.evaluator();
        ev.set_i8(1);
        let res = out(ev.run());
        assert!(matches!(res, Out::Panic(PanicReason::Overflow)), "{src} -> {res:?}");
    }
    // a shift by 256 bits is an overflow, not a shift by 0 bits:
    let src = "pub fn main(x: u8) -> u8 { let s = 256; x << s }";
    if let Ok(prg) = compile(src) {
        let mut ev = prg.evaluator();
        ev.set_u8(1);
        let res = out(ev.run());
        assert!(matches!(res, Out::Panic(PanicReason::Overflow)), "{src} -> {res:?}");
    }
}

/// DEFECT 5: `+` and `-` in a `const` definition wrap around silently (resolve_const_expr_* use
/// wrapping_add / wrapping_sub on 64 bits and the result is then cut down to the bits of the type).
///
/// Correct behaviour: `const C: u8 = 200u8 + 100u8;` is rejected (as in Rust) or leads to an
/// Overflow panic - C is never 44.
#[test]
fn const_expr_add_and_sub_wrap_silently() {
    for (src, x) in [
        ("const C: u8 = 200u8 + 100u8; pub fn main(x: u8) -> u8 { x + C }", 0u8),
        ("const C: u8 = 1u8 - 2u8; pub fn main(x: u8) -> u8 { x + C }", 0u8),
    ] {
        if let Ok(prg) = compile(src) {
            let mut ev = prg.evaluator();
            ev.set_u8(x);
            let res = out(ev.run());
            assert!(matches!(res, Out::Panic(_)), "{src} -> {res:?}");
        }
    }
    let src = "const C: i8 = 100i8 + 100i8; pub fn main(x: i8) -> i8 { x + C }";
    if let Ok(prg) = compile(src) {
        let mut ev = prg.evaluator();
        ev.set_i8(0);
        let res = out(ev.run());
        assert!(matches!(res, Out::Panic(_)), "{src} -> {res:?}");
    }
}
