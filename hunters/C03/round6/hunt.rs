//! Hunt N03 / property C03 (integer operators and casts are bit-exact).
//! Copy to tests/hunt.rs and run `cargo test --offline --test hunt`.
//! Each test FAILS on the unchanged tree.

use garble_lang::{compile, literal::Literal};

/// Compiles `src` (main takes one ignored `bool`), runs it and renders the outcome as a string:
/// the literal, or "panic: <reason>", or "compile error".
fn outcome(src: &str) -> String {
    let prg = match compile(src) {
        Ok(prg) => prg,
        Err(e) => return format!("compile error: {}", e.prettify(src)),
    };
    let mut eval = prg.evaluator();
    eval.set_bool(true);
    match eval.run().unwrap().into_literal() {
        Ok(Literal::True) => "true".to_string(),
        Ok(Literal::False) => "false".to_string(),
        Ok(l) => format!("{l}"),
        Err(e) => format!("panic: {e}"),
    }
}

/// DEFECT 1: operators whose operands are all untyped non-negative literals, in a position where
/// nothing gives them a type (operand of a comparison, operand of `as`, a `let` without type), are
/// computed as *unsigned* 32-bit numbers.  The documentation (garble_docs/src/guide/data_types.md:
/// "If no type suffix is specified and Garble cannot figure out the type, `i32` will be used by
/// default"), Rust, and Garble's own `let mut a = 1 - 2;` all use i32.
///
/// Correct behaviour: `1 - 2` is -1 (representable in i32), so `(1 - 2) < 0` is `true`,
/// `(0 - 1) as i64` is -1, `(!0) as i64` is -1 and `(1 << 31) as i64` is -2147483648; and
/// `2147483647 + 1` is an Overflow panic (it is one in `let mut a = 2147483647 + 1;`).
#[test]
fn untyped_literal_arithmetic_is_done_in_u32_instead_of_i32() {
    // sanity: the same expressions are fine as soon as something supplies the type i32
    assert_eq!(outcome("pub fn main(b: bool) -> bool { let mut a = 1 - 2; a < 0 }"), "true");
    assert_eq!(outcome("pub fn main(b: bool) -> i64 { let a: i32 = !0; a as i64 }"), "-1");

    // observed: "panic: ... Overflow"
    assert_eq!(outcome("pub fn main(b: bool) -> bool { (1 - 2) < 0 }"), "true");
    // observed: "panic: ... Overflow"
    assert_eq!(outcome("pub fn main(b: bool) -> i64 { (0 - 1) as i64 }"), "-1");
    // observed: 4294967295
    assert_eq!(outcome("pub fn main(b: bool) -> i64 { (!0) as i64 }"), "-1");
    // observed: 2147483648
    assert_eq!(outcome("pub fn main(b: bool) -> i64 { (1 << 31) as i64 }"), "-2147483648");
    // observed: true (no panic), although `let mut a = 2147483647 + 1; a > 0` panics with Overflow
    assert!(outcome("pub fn main(b: bool) -> bool { (2147483647 + 1) > 0 }").starts_with("panic"));
}

/// DEFECT 2 (lower confidence, may be seen as a limitation of the type inference): unary minus
/// applied to an untyped non-negative literal (or to an expression made only of such literals) is
/// rejected with "Expected a signed number type, but found unspecified unsigned int", even when the
/// context asks for a signed type.  Only the token `-5` (minus glued to the digits) works, `- 5`,
/// `-(5)` and `-(2 + 3)` do not.
///
/// Correct behaviour: `- 5`, `-(5)` and `-(2 + 3)` are the i8 / i32 value -5, exactly like `-5`.
#[test]
fn negation_of_an_untyped_literal_is_rejected() {
    assert_eq!(outcome("pub fn main(b: bool) -> i8 { -5 }"), "-5");
    assert_eq!(outcome("pub fn main(b: bool) -> i8 { -(5i8) }"), "-5");
    // observed: compile error (type error) for all three
    assert_eq!(outcome("pub fn main(b: bool) -> i8 { - 5 }"), "-5");
    assert_eq!(outcome("pub fn main(b: bool) -> i8 { -(5) }"), "-5");
    assert_eq!(outcome("pub fn main(b: bool) -> i32 { -(2 + 3) }"), "-5");
}
