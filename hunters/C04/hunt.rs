// Property C04: circuit optimizations never change the computed function.
//
// Place this file under tests/ (e.g. tests/hunt.rs) and run `cargo test --offline --test hunt`.
// Every test below FAILS on the unchanged code.

use garble_lang::{CompileOptions, compile, compile_with_options};

/// Defect 1: the translation from the builder numbering (wires 0/1 = constants) to the final
/// numbering builds the constant `false` as `Xor(0, 0)` and `true` as `Not(<that gate>)`. If the
/// parties provide no input bit at all (all parameters are zero-sized: `()`, an empty struct, an
/// array of length 0, ...), wire 0 is the `Xor(0, 0)` gate itself: the gate refers to itself, the
/// circuit is invalid and evaluating it panics, although every output is a well-defined constant.
///
/// Correct behaviour: either the program is rejected with a compile error, or the compiled circuit
/// is valid and evaluates to the constant that the program computes (here: `true`).
#[test]
fn constants_are_broken_in_circuits_without_input_bits() {
    let prg = "pub fn main(_x: ()) -> bool { true }";
    let compiled = match compile(prg) {
        Ok(compiled) => compiled,
        Err(_) => return, // rejecting the program would be acceptable
    };
    let circuit = compiled.circuit.unwrap_ssa_ref();
    assert_eq!(
        circuit.validate(),
        Ok(()),
        "compile() returned an invalid circuit: {circuit:?}"
    );
    let result = std::panic::catch_unwind(|| {
        let mut eval = compiled.evaluator();
        eval.parse_literal("()").unwrap();
        bool::try_from(eval.run().unwrap()).unwrap()
    });
    assert_eq!(result.ok(), Some(true), "evaluating the circuit must yield `true`");
}

/// Defect 2: `push_panic_if` skips a check whose condition *wire* has been seen before. Whether two
/// evaluations of the same condition end up on the same wire depends on gate de-duplication, so the
/// circuits compiled with `optimize_duplicate_gates` on and off do not compute the same output
/// bits: whenever no panic occurs, the reason/location wires of the panic record (which are
/// ordinary circuit outputs, bits 1..161) carry the location of the *first* `a[i]` with
/// de-duplication on, but of the *second* `a[i]` with de-duplication off.
///
/// Correct behaviour: both circuits compute the same function on every output wire for every input
/// (the decoded value is the same here, only the raw output bits differ).
#[test]
fn dedup_on_and_off_produce_different_output_bits() {
    let prg = "pub fn main(a: [u8; 2], i: usize) -> u8 {
    a[i] ^
      a[i]
}";
    let on = compile_with_options(
        prg,
        CompileOptions {
            optimize_duplicate_gates: true,
            ..Default::default()
        },
    )
    .unwrap();
    let off = compile_with_options(
        prg,
        CompileOptions {
            optimize_duplicate_gates: false,
            ..Default::default()
        },
    )
    .unwrap();
    for i in 0..4u32 {
        let inputs = vec![
            vec![false; 16],
            (0..32).map(|b| (i >> (31 - b)) & 1 == 1).collect(),
        ];
        let out_on = on.circuit.eval(&inputs);
        let out_off = off.circuit.eval(&inputs);
        let differing: Vec<usize> = (0..out_on.len())
            .filter(|&b| out_on[b] != out_off[b])
            .collect();
        assert!(
            differing.is_empty(),
            "i = {i}: output bits {differing:?} differ between de-duplication on and off"
        );
    }
}
