//! Hunt round 7, property C04 (circuit optimizations never change the computed function).
//!
//! Result of the hunt: no input was found on which an optimization changes the Boolean function
//! of a wire or of a circuit output (see notes.md for everything that was swept). The one defect
//! below is a borderline one: the XOR rewrite rule does not change the function, it makes the
//! builder crash (no circuit is built at all), whereas the same gate requests executed literally
//! (one `Xor` gate per request) build a circuit without any problem.
//!
//! Copy to `tests/hunt.rs` and run with `cargo test --offline --test hunt` (default = debug
//! profile). In `--release` LLVM happens to turn the recursive call into a loop, so the test only
//! fails in the default (unoptimised) profile.

use garble_lang::{circuit_type::CircuitType, compile};

const CHILD_ENV: &str = "HUNT7_C04_CHILD";

/// `x` and `y` are two XOR accumulators over the same `n` array elements, the result is `x ^ y`
/// (which is just `a ^ b`).
fn xor_chain_prg(n: usize) -> String {
    format!(
        "pub fn main(a: bool, b: bool, arr: [bool; {n}]) -> bool {{
    let mut x = a;
    let mut y = b;
    for e in arr {{
        x = x ^ e;
        y = y ^ e;
    }}
    x ^ y
}}"
    )
}

/// Defect 1: `CircuitBuilder::push_xor` (src/circuit.rs, the `(Xor(x1, x2), Xor(y1, y2))` rule:
/// `if x2 == y2 { return self.push_xor(x1, y1) }` etc.) calls itself once per layer of two XOR
/// chains that share their operands. The recursion depth is therefore linear in the program
/// size (here: the array length) and the compiler dies with "thread has overflowed its stack"
/// (SIGABRT, not catchable) for an array of only a few thousand `bool`s: ~1000 elements on a
/// 2 MiB thread (the default for spawned threads / test threads), ~4000 elements on the 8 MiB
/// main thread, in the default cargo profile.
///
/// Correct behaviour: `compile` returns a circuit that computes `a ^ b` (as it does for short
/// arrays, and as the literal, un-simplified execution of the same gate requests would: 2 * n + 1
/// XOR gates, no recursion). The rewrite has to be iterative (or depth-limited).
///
/// The compilation runs in a child process (the test binary re-executes itself), because a stack
/// overflow aborts the whole process.
#[test]
fn xor_chain_rewrite_recursion_overflows_stack() {
    let n = 6000;
    if std::env::var(CHILD_ENV).is_ok() {
        // same stack size as the main thread of a normal program:
        let child = std::thread::Builder::new()
            .stack_size(8 << 20)
            .spawn(move || {
                let prg = compile(&xor_chain_prg(n)).unwrap();
                let CircuitType::Ssa(circuit) = &prg.circuit else {
                    unreachable!()
                };
                for (a, b) in [(false, false), (false, true), (true, false), (true, true)] {
                    let arr: Vec<bool> = (0..n).map(|i| i % 3 == 0).collect();
                    let out = circuit.eval(&[vec![a], vec![b], arr]);
                    assert!(!out[0], "no panic expected");
                    assert_eq!(out[out.len() - 1], a ^ b);
                }
            })
            .unwrap();
        child.join().unwrap();
        return;
    }
    // sanity: the same program with a short array compiles and computes a ^ b
    let small = compile(&xor_chain_prg(50)).unwrap();
    let CircuitType::Ssa(circuit) = &small.circuit else {
        unreachable!()
    };
    let out = circuit.eval(&[vec![true], vec![false], vec![true; 50]]);
    assert!(out[out.len() - 1]);

    let exe = std::env::current_exe().unwrap();
    let output = std::process::Command::new(exe)
        .args([
            "--exact",
            "xor_chain_rewrite_recursion_overflows_stack",
            "--nocapture",
            "--test-threads=1",
        ])
        .env(CHILD_ENV, "1")
        .output()
        .unwrap();
    assert!(
        output.status.success(),
        "compiling the XOR chain over [bool; {n}] crashed the compiler: {:?}\n{}",
        output.status,
        String::from_utf8_lossy(&output.stderr)
    );
}
