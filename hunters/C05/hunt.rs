//! Property C05: accepted programs compile (without internal panics) to valid circuits whose I/O
//! shape matches their types; programs that cannot be compiled this way are rejected with an error.
//!
//! Every test in this file FAILS on the unchanged code. Copy the file to `tests/hunt.rs` and run
//! `cargo test --offline --test hunt`.

use std::collections::HashMap;
use std::panic::{AssertUnwindSafe, catch_unwind};

use garble_lang::{
    Error, GarbleProgram, compile, compile_with_constants, literal::Literal,
    token::UnsignedNumType,
};

const PANIC_BITS: usize = 161;

/// Compiles the program, turning an internal panic of the compiler into a test failure with a
/// readable message.
fn compile_no_panic(src: &str) -> Result<GarbleProgram, Error> {
    compile_consts_no_panic(src, HashMap::new())
}

fn compile_consts_no_panic(
    src: &str,
    consts: HashMap<String, HashMap<String, Literal>>,
) -> Result<GarbleProgram, Error> {
    match catch_unwind(AssertUnwindSafe(|| compile_with_constants(src, consts))) {
        Ok(r) => r,
        Err(e) => {
            let msg = e
                .downcast_ref::<String>()
                .cloned()
                .or_else(|| e.downcast_ref::<&str>().map(|s| s.to_string()))
                .unwrap_or_default();
            panic!("the compiler panicked internally ('{msg}') on the accepted program:\n{src}")
        }
    }
}

fn output_bits(prg: &GarbleProgram) -> usize {
    prg.circuit.unwrap_ssa_ref().output_gates.len()
}

fn input_bits(prg: &GarbleProgram) -> Vec<usize> {
    prg.circuit.unwrap_ssa_ref().input_gates.clone()
}

// ---------------------------------------------------------------------------------------------
// 1. Programs whose parameters are all zero-sized are accepted, but the circuit has no input bit
//    and fails its own validation.
//
// Correct behaviour: either reject the program with an error (a circuit needs at least one input
// bit, see the docs of `Circuit`), or produce a circuit that passes `Circuit::validate`.
// ---------------------------------------------------------------------------------------------
#[test]
fn zero_sized_inputs_produce_invalid_circuit() {
    for src in [
        // InvalidGate(0): the constant-false gate Xor(0, 0) refers to itself
        "pub fn main(x: ()) -> bool { true }",
        // EmptyInputs: single array parameter of length 0 => zero parties
        "pub fn main(x: [u8; 0]) -> u8 { 1u8 }",
    ] {
        if let Ok(prg) = compile_no_panic(src) {
            let circuit = prg.circuit.unwrap_ssa_ref();
            assert_eq!(
                circuit.validate(),
                Ok(()),
                "accepted program compiled to an invalid circuit: {src}"
            );
        }
    }
}

// ---------------------------------------------------------------------------------------------
// 2. `garble_lang::compile` throws away the sizes of the `const`s that are defined in the program
//    itself (`GarbleProgram::const_sizes` stays empty), so the output of a function with a
//    const-sized return type cannot be decoded: `parse_output` / `EvalOutput::into_literal` panic
//    with `Option::unwrap()` on `None` (src/literal.rs, `Type::ArrayConst` arm).
//
// Correct behaviour: the 16 output bits decode to `[7, 7]`.
// ---------------------------------------------------------------------------------------------
#[test]
fn compile_forgets_const_sizes_so_output_cannot_be_decoded() {
    let src = "const N: usize = 2usize; pub fn main(x: u8) -> [u8; N] { [x; N] }";
    let prg = compile(src).unwrap();
    assert_eq!(output_bits(&prg), PANIC_BITS + 16);
    let x = vec![false, false, false, false, false, true, true, true];
    let out = prg.circuit.eval(&[x]);
    let decoded = catch_unwind(AssertUnwindSafe(|| prg.parse_output(&out)));
    let decoded = decoded.expect("parse_output panicked instead of decoding [u8; N]");
    assert_eq!(decoded.unwrap().to_string(), "[7, 7]");
}

// ---------------------------------------------------------------------------------------------
// 3a. A tuple / array of numbers without type suffix that is bound by `let` keeps 32 bits per
//     number, but `constrain_type` (src/check.rs, the `ExprEnum::Identifier` arms and the final
//     `overwrite_ty_if_necessary`) later rewrites the *type* of the identifier expression to the
//     expected one without the wires being adjusted.
//
// Correct behaviour: 161 + 8 + 64 output bits that decode to (1, 2) (or a type error).
// Observed: 161 + 64 output bits.
// ---------------------------------------------------------------------------------------------
#[test]
fn let_bound_collection_of_unsuffixed_numbers_has_wrong_width() {
    let src = "pub fn main(x: u8) -> (u8, i64) { let y = (1, 2); y }";
    if let Ok(prg) = compile_no_panic(src) {
        assert_eq!(output_bits(&prg), PANIC_BITS + 8 + 64, "{src}");
    }
    // the same confusion makes the compiler itself panic (slice index out of range):
    let src = "pub fn main(x: u64) -> u64 { let y = (5, 6); let z: (u64, u64) = y; z.1 }";
    let _ = compile_no_panic(src);
}

// ---------------------------------------------------------------------------------------------
// 3b. A range without type suffix that is used as an array of another number type: the type of
//     the range expression is overwritten ([u8; 3]), its elements are still compiled with 32 bits.
//
// Correct behaviour: 161 + 24 output bits that decode to [0, 1, 2] (or a type error).
// Observed: 161 + 96 output bits.
// ---------------------------------------------------------------------------------------------
#[test]
fn unsuffixed_range_used_as_u8_array_has_wrong_width() {
    let src = "pub fn main(x: u8) -> [u8; 3] { 0..3 }";
    if let Ok(prg) = compile_no_panic(src) {
        assert_eq!(output_bits(&prg), PANIC_BITS + 24, "{src}");
        let out = prg.circuit.eval(&[vec![false; 8]]);
        assert_eq!(prg.parse_output(&out).unwrap().to_string(), "[0, 1, 2]");
    }
}

// ---------------------------------------------------------------------------------------------
// 3c. The same for array / tuple accesses that yield a collection of unsuffixed numbers.
//
// Correct behaviour: 161 + 16 output bits (or a type error). Observed: 161 + 64 output bits.
// ---------------------------------------------------------------------------------------------
#[test]
fn accessed_collection_of_unsuffixed_numbers_has_wrong_width() {
    for src in [
        "pub fn main(x: u8) -> [u8; 2] { [[1, 2], [3, 4]][0] }",
        "pub fn main(x: u8) -> (u8, u8) { ((1, 2), 3).0 }",
    ] {
        if let Ok(prg) = compile_no_panic(src) {
            assert_eq!(output_bits(&prg), PANIC_BITS + 16, "{src}");
        }
    }
}

// ---------------------------------------------------------------------------------------------
// 4. A `match` whose arms are unsuffixed numbers is unified with a 64-bit operand: `unify` /
//    `check_or_constrain_unsigned` only change the type of the `match` expression, not the arms.
//    `ExprEnum::Match` in src/compile.rs then reads 64 wires from the 32-wire arms and panics
//    ("index out of bounds: the len is 32 but the index is 32"). (For 8/16-bit operands there is no
//    panic, but the *most* significant bits of the arm are used, e.g. `x < match..{5,6}` is false
//    for x = 1u8.)
//
// Correct behaviour: the program compiles (5 == x) or is rejected with a type error.
// ---------------------------------------------------------------------------------------------
#[test]
fn match_with_unsuffixed_arms_unified_with_u64_panics() {
    let src = "pub fn main(b: bool, x: u64) -> bool { x == (match b { true => 5, false => 6 }) }";
    if let Ok(prg) = compile_no_panic(src) {
        let mut eval = prg.evaluator();
        eval.set_bool(true);
        eval.set_u64(5);
        assert!(bool::try_from(eval.run().unwrap()).unwrap());
    }
}

// ---------------------------------------------------------------------------------------------
// 5. A struct literal that names one field twice and omits another one is accepted (the check for
//    missing fields only compares the *number* of fields), the compiler then panics with
//    `Option::unwrap()` on `None` (src/compile.rs, `ExprEnum::StructLiteral`).
//
// Correct behaviour: a type error (duplicate field `a` / missing field `b`).
// ---------------------------------------------------------------------------------------------
#[test]
fn struct_literal_with_duplicate_field_panics() {
    let src = "struct Foo { a: u8, b: u8 } pub fn main(x: u8) -> Foo { Foo { a: x, a: x } }";
    assert!(
        compile_no_panic(src).is_err(),
        "a struct literal without field `b` must be rejected"
    );
}

// ---------------------------------------------------------------------------------------------
// 6. A struct *definition* that declares the same field twice (with different types) is accepted.
//    The type checker uses the last declaration (`a: bool`), the compiler the first match
//    (`a: u8`), and the size of the struct counts both (9 bits).
//
// Correct behaviour: a type error for the duplicate field. Observed: `x.a` has type bool but the
// circuit has 161 + 8 output bits (and `S { a: x }` produces 2 of 9 bits).
// ---------------------------------------------------------------------------------------------
#[test]
fn struct_def_with_duplicate_field_gives_inconsistent_sizes() {
    let src = "struct S { a: u8, a: bool } pub fn main(x: S) -> bool { x.a }";
    if let Ok(prg) = compile_no_panic(src) {
        assert_eq!(output_bits(&prg), PANIC_BITS + 1, "{src}");
    }
}

// ---------------------------------------------------------------------------------------------
// 7. A single array parameter whose size is a const *expression* is wired as ONE party with all
//    bits, whereas `[i32; 5]` / `[i32; N]` get one party per element.
//
// Correct behaviour (per the property / the docs "Garble will then assume that each array element
// is provided by a different party"): 5 parties with 32 bits each. Observed: [160].
// ---------------------------------------------------------------------------------------------
#[test]
fn single_const_expr_array_param_is_one_party() {
    let src = "pub fn main(arr: [i32; const { 2usize + 3usize }]) -> i32 { arr[0] }";
    let prg = compile_no_panic(src).unwrap();
    assert_eq!(input_bits(&prg), vec![32; 5]);
}

// ---------------------------------------------------------------------------------------------
// 8. A const-expression array size that underflows (documented as wrapping) is accepted by the
//    checker, compiling panics ("attempt to multiply with overflow" in debug builds, "capacity
//    overflow" otherwise) in `Type::size_in_bits_for_defs`.
//
// Correct behaviour: an error instead of a panic.
// ---------------------------------------------------------------------------------------------
#[test]
fn underflowing_const_expr_array_size_panics() {
    let src = "pub fn main(x: u8, arr: [u8; const { 2usize - 3usize }]) -> u8 { x }";
    let _ = compile_no_panic(src);
}

// ---------------------------------------------------------------------------------------------
// 9. Joining two empty arrays: the result size is `0 + 0 - 1`, `compile_bitonic_merge` computes
//    `Vec::with_capacity(num_elems_a + num_elems_b - 1)` and panics ("attempt to subtract with
//    overflow"). Same for `for .. in join_iter(a, b)`.
//
// Correct behaviour: an error, or an empty join.
// ---------------------------------------------------------------------------------------------
#[test]
fn join_of_two_empty_arrays_panics() {
    let src = "pub fn main(a: [u8; 0], b: [u8; 0], c: u8) -> u8 { let j = join(a, b); c }";
    let _ = compile_no_panic(src);
}

// ---------------------------------------------------------------------------------------------
// 10. Functions are compiled in the environment of their caller: a `const` used inside a function
//     is looked up by name at compile time and finds a local variable / parameter of the *caller*
//     with the same name (the type checker resolved it to the const). With different types the
//     compiler panics (here: "range end index 8 out of range for slice of length 1").
//
// Correct behaviour: `f` uses the const `N = true`, main(N = (3, 4)) returns 3.
// ---------------------------------------------------------------------------------------------
#[test]
fn const_in_callee_is_shadowed_by_variable_of_caller() {
    let src = "
const N: bool = true;
fn f(x: u8) -> u8 { if N { x } else { 0u8 } }
pub fn main(N: (u8, u8)) -> u8 { f(N.0) }";
    let prg = compile_no_panic(src).unwrap();
    let mut eval = prg.evaluator();
    eval.parse_literal("(3, 4)").unwrap();
    assert_eq!(u8::try_from(eval.run().unwrap()).unwrap(), 3);
}

// ---------------------------------------------------------------------------------------------
// 11. Assigning to an element of an array whose elements are zero-sized (enum with a single unit
//     variant, struct without fields): `array.len() / elem_bits` in `StmtEnum::VarAssign`
//     (src/compile.rs) divides by zero.
//
// Correct behaviour: compiles to a circuit with 161 + 0 output bits.
// ---------------------------------------------------------------------------------------------
#[test]
fn assignment_to_array_of_zero_sized_elements_panics() {
    let src = "enum E { A } pub fn main(x: u8) -> [E; 3] { let mut a = [E::A; 3]; a[0] = E::A; a }";
    let prg = compile_no_panic(src).unwrap();
    assert_eq!(output_bits(&prg), PANIC_BITS);
}

// ---------------------------------------------------------------------------------------------
// 12. The same external value `PARTY_0::X` is used by two consts of different types. The checker
//     accepts this, `const_deps` only remembers the type of the last use, so a literal of that type
//     passes the validation in `compile_with_constants` and the compiler panics afterwards
//     (`assert_eq!(condition.len(), 1)`; with a usize const: `Option::unwrap()` on `None`).
//
// Correct behaviour: an error (from the checker or `CompilerError::InvalidLiteralType`).
// ---------------------------------------------------------------------------------------------
#[test]
fn external_const_used_with_two_types_panics() {
    let src = "
const A: bool = PARTY_0::X;
const B: u8 = PARTY_0::X;
pub fn main(x: u8) -> u8 { if A { x } else { B } }";
    let consts = HashMap::from_iter([(
        "PARTY_0".to_string(),
        HashMap::from_iter([("X".to_string(), Literal::NumUnsigned(3, UnsignedNumType::U8))]),
    )]);
    assert!(compile_consts_no_panic(src, consts).is_err());
}

// ---------------------------------------------------------------------------------------------
// 13. Recursive struct / enum definitions are accepted by the type checker;
//     `Type::size_in_bits_for_defs` then recurses forever and the process dies with a stack
//     overflow (SIGABRT, not even a catchable panic). The compilation therefore runs in a child
//     process (the ignored helper test below).
//
// Correct behaviour: a type error for the infinitely sized type.
// ---------------------------------------------------------------------------------------------
#[test]
fn recursive_struct_definition_overflows_the_stack() {
    let status = std::process::Command::new(std::env::current_exe().unwrap())
        .args(["--ignored", "--exact", "helper_compile_recursive_struct"])
        .stdout(std::process::Stdio::null())
        .stderr(std::process::Stdio::null())
        .status()
        .unwrap();
    assert!(
        status.success(),
        "compiling a recursive struct definition crashed the process: {status}"
    );
}

#[test]
#[ignore]
fn helper_compile_recursive_struct() {
    let src = "struct S { a: S } pub fn main(x: S) -> u8 { 1u8 }";
    assert!(compile(src).is_err());
}

// ---------------------------------------------------------------------------------------------
// 14. Well-typed program (all literal types written out) that is rejected: a struct pattern with
//     `..` (documented in the guide) that constrains a field that is not the (alphabetically)
//     first one. `specialize` (src/check.rs, `Ctor::Struct`) treats the fields listed in the
//     pattern as if they were the first fields of the struct, so the `bool` patterns are compared
//     with the `u8` column and the exhaustive match is reported as "not exhaustive".
//
// Correct behaviour: the program is accepted.
// ---------------------------------------------------------------------------------------------
#[test]
fn exhaustive_struct_patterns_with_rest_are_rejected() {
    let src = "
struct S { a: u8, b: bool }
pub fn main(s: S) -> u8 {
    match s {
        S { b: true, .. } => 1u8,
        S { b: false, .. } => 0u8,
    }
}";
    if let Err(e) = compile_no_panic(src) {
        panic!("{}", e.prettify(src));
    }
}

// ---------------------------------------------------------------------------------------------
// 15. The body of a `for` loop is type-checked once, but compiled once per element *in the same
//     scope* (`StmtEnum::ForEachLoop` in src/compile.rs pushes one scope for the whole loop). A
//     `let` in the body therefore shadows an outer variable of the same name from the second
//     iteration on, although the type checker resolved the earlier use to the outer variable.
//     With different types the compiler panics ("range end index 8 out of range for slice of
//     length 1"); with equal types the result is silently wrong (e.g.
//     `let mut y = 0u8; for i in 0u8..2u8 { y = y + 1u8; let mut y = 5u8; } y` evaluates to 1).
//
// Correct behaviour: `y.0` always refers to the outer tuple, main(3) returns 6.
// ---------------------------------------------------------------------------------------------
#[test]
fn let_in_loop_body_leaks_into_next_iteration() {
    let src = "
pub fn main(x: u8) -> u8 {
    let y = (x, x);
    let mut s = 0u8;
    for i in 0u8..2u8 {
        s = s + y.0;
        let y = true;
    }
    s
}";
    let prg = compile_no_panic(src).unwrap();
    let mut eval = prg.evaluator();
    eval.set_u8(3);
    assert_eq!(u8::try_from(eval.run().unwrap()).unwrap(), 6);
}
