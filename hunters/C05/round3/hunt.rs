//! Property C05: accepted programs compile to valid circuits whose I/O shape matches their types
//! (and programs that are well-typed under the documented rules are accepted).
//!
//! One test per distinct defect. Every test FAILS on the unchanged code.
//! Copy to `tests/hunt_c05.rs` and run `cargo test --offline --test hunt_c05`.

use std::collections::HashMap;
use std::panic::{AssertUnwindSafe, catch_unwind};

use garble_lang::{
    CompileOptions, check, compile, compile_with_constants, literal::Literal,
    token::UnsignedNumType,
};

fn consts(n: u64) -> HashMap<String, HashMap<String, Literal>> {
    let mut c: HashMap<String, HashMap<String, Literal>> = HashMap::new();
    c.entry("P".to_string())
        .or_default()
        .insert("N".to_string(), Literal::NumUnsigned(n, UnsignedNumType::Usize));
    c
}

/// D0 (most important; introduced with the fix "collections of untyped numbers only take on
/// element types of the same width"): when an array literal is checked against an expected type,
/// `constrain_type` re-types its elements and then takes the element type of the whole array from
/// its FIRST element only. If the first element is a literal (which can be re-typed) and a later
/// element is a variable / field / element / block / if / match that holds a collection of untyped
/// (32-bit) numbers (which cannot be re-typed), the array is accepted as e.g. `[[u8; 2]; 2]`
/// although its second element still consists of 2 * 32 wires:
///   * the circuit of `main` has 161 + 80 instead of 161 + 32 output bits, the output decodes
///     (without any error) to the wrong value `[[5, 6], [0, 0]]`,
///   * as the field of an enum literal the same array makes the compiler panic
///     ("range end index 82 out of range for slice of length 34" in compile.rs).
///
/// Correct behaviour: the programs are rejected with a type error (as `[r, [5, 6]]` is, where the
/// variable comes first) or compiled to circuits with 32 / 34 output bits and the value
/// `[[5, 6], [1, 2]]`.
#[test]
fn d0_array_literal_takes_its_type_from_its_first_element_only() {
    let mut failures = vec![];

    let prg = "pub fn main(x: u8) -> [[u8; 2]; 2] { let r = [1, 2]; [[5, 6], r] }";
    // (the other order is a type error: "Expected type [[u8; 2]; 2], but found [[unspecified..")
    assert!(check("pub fn main(x: u8) -> [[u8; 2]; 2] { let r = [1, 2]; [r, [5, 6]] }").is_err());
    if let Ok(compiled) = compile(prg) {
        let circuit = compiled.circuit.unwrap_ssa_ref();
        if circuit.output_gates.len() != 161 + 32 {
            failures.push(format!(
                "{prg}\n  -> {} instead of 161 + 32 output bits",
                circuit.output_gates.len()
            ));
        }
        let mut eval = compiled.evaluator();
        eval.set_u8(0);
        let out = eval.run().unwrap().into_literal().map(|l| l.to_string());
        if out.as_deref().ok() != Some("[[5, 6], [1, 2]]") {
            failures.push(format!("{prg}\n  -> evaluates to {out:?}"));
        }
    }

    let prg = "enum V { A(bool, [(u8, u8); 2]), B }\npub fn main(x: u8) -> V { let t = (1, 2); V::A(true, [(5, 6), t]) }";
    match catch_unwind(AssertUnwindSafe(|| compile(prg))) {
        Err(_) => failures.push(format!("{prg}\n  -> the compiler panicked")),
        Ok(Err(_)) => {}
        Ok(Ok(compiled)) => {
            let bits = compiled.circuit.unwrap_ssa_ref().output_gates.len();
            if bits != 161 + 34 {
                failures.push(format!("{prg}\n  -> {bits} instead of 161 + 34 output bits"));
            }
        }
    }
    assert!(failures.is_empty(), "\n{}", failures.join("\n"));
}

/// D1 (regression): the range example of the language guide (data_types.md, "Arrays and Ranges")
/// is rejected: "Expected type [i32; 5], but found [unspecified unsigned int; 5]".
///
/// Correct behaviour: the program is accepted (`10..15` is documented to be "equivalent to
/// `[10, 11, 12, 13, 14]`", which IS accepted as an `[i32; 5]`) and evaluates to [10, .., 14].
/// The elements of an untyped range are 32-bit values, just like `i32`.
#[test]
fn d1_documented_range_as_i32_array_is_rejected() {
    let prg = "pub fn main(_a: i32) -> [i32; 5] {\n    10..15 // equivalent to `[10, 11, 12, 13, 14]`\n}";
    // the "equivalent" array literal is fine:
    assert!(check("pub fn main(_a: i32) -> [i32; 5] { [10, 11, 12, 13, 14] }").is_ok());
    let compiled = compile(prg).unwrap_or_else(|e| panic!("rejected: {}", e.prettify(prg)));
    let mut eval = compiled.evaluator();
    eval.set_i32(0);
    let out = eval.run().unwrap().into_literal().unwrap();
    assert_eq!(out.to_string(), "[10, 11, 12, 13, 14]");
}

/// D2: `let mut` only defaults untyped numbers to `i32` one level deep. In a nested collection the
/// variable keeps the element type "unspecified unsigned int", so that no `i32` (and no negative
/// number) can be assigned to an element any more:
/// "Expected type unspecified unsigned int, but found i32".
///
/// Correct behaviour (data_types.md: "If no type suffix is specified and Garble cannot figure out
/// the type, `i32` will be used by default"; the one-dimensional `let mut g = [0; 3]; g[i] = x` is
/// accepted): all three programs are accepted.
#[test]
fn d2_let_mut_nested_collection_does_not_default_to_i32() {
    for prg in [
        "pub fn main(x: i32, i: usize) -> i32 { let mut g = [[0; 3]; 3]; g[i][i] = x; g[0][0] }",
        "pub fn main(x: i32, i: usize) -> i32 { let mut g = [[0; 3]; 3]; g[i][i] = -1; g[0][0] + x }",
        "pub fn main(x: i32, i: usize) -> i32 { let mut g = [(0, 0); 2]; g[i] = (x, x); g[0].0 }",
    ] {
        // (the one-dimensional case works)
        assert!(
            check("pub fn main(x: i32, i: usize) -> i32 { let mut g = [0; 3]; g[i] = x; g[0] }")
                .is_ok()
        );
        if let Err(e) = check(prg) {
            panic!("rejected: {}", e.prettify(prg));
        }
    }
}

/// D3: the FIRST field of an enum variant can only be a type that starts with an identifier: an
/// array, tuple or unit type is a parse error ("Expected ')'"), although the very same types are
/// accepted as the second (third, ...) field of a variant.
///
/// Correct behaviour: a well-typed program with all types written out is accepted, wherever the
/// field stands.
#[test]
fn d3_enum_variant_with_array_or_tuple_as_first_field_is_rejected() {
    // accepted:
    assert!(check("enum E { A(u8, [u8; 2]), B }\npub fn main(e: E) -> E { e }").is_ok());
    assert!(check("enum E { A(u8, (u8, bool)), B }\npub fn main(e: E) -> E { e }").is_ok());
    // rejected:
    for prg in [
        "enum E { A([u8; 2]), B }\npub fn main(e: E) -> E { e }",
        "enum E { A((u8, bool), u8), B }\npub fn main(e: E) -> E { e }",
        "enum E { A(()), B }\npub fn main(e: E) -> E { e }",
    ] {
        if let Err(e) = check(prg) {
            panic!("rejected: {}", e.prettify(prg));
        }
    }
}

/// D4: a single array parameter is wired as one party per element for `[T; 3]` and `[T; N]`, but
/// not if the size is written as a const expression: `[u8; const { 2 + 1 }]` becomes ONE party
/// with 24 bits.
///
/// Correct behaviour: "one input party per parameter (one per element when the only parameter is
/// an array)", i.e. input_gates == [8, 8, 8] as for `[u8; 3]`.
#[test]
fn d4_single_const_expr_array_param_is_not_split_into_parties() {
    let by_number = compile("pub fn main(a: [u8; 3]) -> u8 { a[0] }").unwrap();
    assert_eq!(by_number.circuit.unwrap_ssa_ref().input_gates, vec![8, 8, 8]);

    let by_expr = compile("pub fn main(a: [u8; const { 2 + 1 }]) -> u8 { a[0] }").unwrap();
    assert_eq!(by_expr.circuit.unwrap_ssa_ref().input_gates, vec![8, 8, 8]);
}

/// D5: `join` of two empty arrays is accepted and "compiles", but the size of its result type
/// `const { 0usize + 0usize - 1usize }` wraps around to usize::MAX: the circuit has 161 + 0 output
/// bits for a return type of 2^64 - 1 elements, decoding the output panics inside of
/// `Literal::from_result_bits` (range end index 9 out of range for slice of length 0).
/// The same happens for `const N: usize = P::N; ... [T; N]` with N == 0.
///
/// Correct behaviour: the program is rejected with an error (or has a result of 0 elements), in
/// any case the output of a compiled circuit can be decoded as its declared return type.
#[test]
fn d5_join_of_two_empty_arrays_has_undecodable_result_type() {
    let prg = "pub fn main(a: [u8; 0], b: [u8; 0], c: u8) -> [(bool, u8); const { 0usize + 0usize - 1usize }] { join(a, b) }";
    let Ok(compiled) = compile(prg) else {
        return; // rejecting the program would be fine
    };
    let circuit = compiled.circuit.unwrap_ssa_ref();
    circuit.validate().unwrap();
    let out = circuit.eval(&[vec![], vec![], vec![false; 8]]);
    let decoded = catch_unwind(AssertUnwindSafe(|| compiled.parse_output(&out)));
    match decoded {
        Ok(Ok(_)) => {}
        Ok(Err(e)) => panic!("the output of the circuit cannot be decoded: {e}"),
        Err(_) => panic!(
            "decoding the {} output bits as the declared return type panicked",
            out.len()
        ),
    }
}

/// D6: the size in bits of a type is computed with unchecked `usize` arithmetic. An accepted
/// program with a large array type panics inside of the compiler in a debug build ("attempt to
/// multiply with overflow" in `Type::size_in_bits_for_defs`) and is compiled to a circuit in
/// which the parameter has 0 input bits in a release build (8 * 2^61 wraps around to 0).
///
/// Correct behaviour: a program that cannot be compiled is rejected with an error.
#[test]
fn d6_type_size_overflow_panics_or_wraps() {
    let prg = "pub fn main(a: [u8; 2305843009213693952], b: u8) -> u8 { b }";
    let checked = check(prg).expect("accepted by the type checker");
    let compiled = catch_unwind(AssertUnwindSafe(|| {
        checked
            .compile_with_constants("main", HashMap::new(), &CompileOptions::default())
            .map(|(circuit, _, _)| circuit.input_gates)
    }));
    match compiled {
        Err(_) => panic!("internal panic of the compiler instead of an error"),
        Ok(Ok(input_gates)) => panic!(
            "compiled to a circuit with the input parties {input_gates:?} for a parameter of 2^61 bytes"
        ),
        Ok(Err(_)) => {}
    }
}

/// D7: if a struct (or enum) has a field whose type is a const-sized array, the output of a
/// function that returns the struct is decoded to a literal that is not a value of the declared
/// return type according to the crate's own `Literal::is_of_type` / `GarbleProgram::literal_arg`
/// (the parameter has the same type as the return value here), and no literal can be parsed as an
/// argument of that type either (`parse_arg`: "expected ArrayConst(u8, N), actual Array(u8, 2)").
/// The sizes are only resolved in arrays and tuples (`resolve_const_type`), not behind type names.
///
/// Correct behaviour: the output decodes to a value of the declared return type, which can be
/// fed back into the identity function.
#[test]
fn d7_struct_with_const_sized_array_field_is_not_a_value_of_its_type() {
    let prg = "const N: usize = P::N;\nstruct S { a: [u8; N], b: bool }\npub fn main(x: S) -> S { x }";
    let compiled = compile_with_constants(prg, consts(2)).unwrap();
    let circuit = compiled.circuit.unwrap_ssa_ref();
    assert_eq!(circuit.input_gates, vec![17]);
    let out = circuit.eval(&[vec![true; 17]]);
    let decoded = compiled.parse_output(&out).unwrap();
    assert_eq!(decoded.to_string(), "S {a: [255, 255], b: true}");
    // the tuple version of the same type works:
    let tuple = compile_with_constants(
        "const N: usize = P::N;\npub fn main(x: ([u8; N], bool)) -> ([u8; N], bool) { x }",
        consts(2),
    )
    .unwrap();
    assert!(tuple.parse_arg(0, "([255, 255], true)").is_ok());
    // the struct version does not:
    assert!(
        decoded.is_of_type(&compiled.program, &compiled.main.ty),
        "decoded output {decoded} is not of the return type {}",
        compiled.main.ty
    );
    assert!(compiled.literal_arg(0, decoded).is_ok());
    assert!(compiled.parse_arg(0, "S { a: [255, 255], b: true }").is_ok());
}
