//! Hunt for violations of property C05 (accepted programs compile to valid circuits whose I/O
//! shape matches their types). One test per defect, each fails on the unchanged code.
//!
//! Run with: cp hunt_out/hunt.rs tests/hunt.rs && cargo test --offline --test hunt

use garble_lang::{circuit_type::CircuitType, compile, literal::Literal};

/// D1: "It is also possible to use a single array as the argument of the main function, Garble will
/// then assume that each array element is coming from a different party." This holds for `[T; 3]`
/// and `[T; N]`, but not for an array whose size is written as a const expression: the circuit then
/// has a single input party that supplies the whole array.
///
/// Correct behaviour: 3 input parties of 8 bits each (as for `[u8; 3]`).
#[test]
fn single_array_param_with_const_expr_size_is_one_party_per_element() {
    let with_literal_size = compile("pub fn main(x: [u8; 3]) -> u8 { x[0] }").unwrap();
    let CircuitType::Ssa(c) = &with_literal_size.circuit else { panic!() };
    assert_eq!(c.input_gates, vec![8, 8, 8]);

    let with_const_size =
        compile("const N: usize = 3usize; pub fn main(x: [u8; N]) -> u8 { x[0] }").unwrap();
    let CircuitType::Ssa(c) = &with_const_size.circuit else { panic!() };
    assert_eq!(c.input_gates, vec![8, 8, 8]);

    let with_const_expr_size =
        compile("pub fn main(x: [u8; const { 2 + 1 }]) -> u8 { x[0] }").unwrap();
    let CircuitType::Ssa(c) = &with_const_expr_size.circuit else { panic!() };
    // fails: the circuit has the input parties [24]
    assert_eq!(c.input_gates, vec![8, 8, 8]);
}

/// D2: an untyped range is accepted as an array of signed numbers (`let a: [i8; 3] = 0..3;` type
/// checks and compiles), and `GarbleProgram::parse_arg` accepts it as an argument as well, but the
/// literal that it produces (`Literal::Range(0, 3, U8)`) is not of the parameter type any more
/// according to `Literal::is_of_type`, so `literal_arg` / `Evaluator::set_literal` /
/// `Evaluator::parse_literal` reject the very literal that `parse_arg` handed out:
/// "The argument literal is not of type [i8; 3]: '0u8..3u8'".
///
/// Correct behaviour: a range literal is a value of every array type that the checker lets it
/// take on (or parse_arg rejects it as well), the evaluation returns 2.
#[test]
fn untyped_range_is_an_argument_of_a_signed_array_param() {
    let prg = compile("pub fn main(x: [i8; 3], i: usize) -> i8 { x[i] }").unwrap();
    // the same expression inside of a program is fine:
    compile("pub fn main(i: usize) -> i8 { let x: [i8; 3] = 0..3; x[i] }").unwrap();

    let arg = prg.parse_arg(0, "0..3").expect("parse_arg accepts the range");
    assert_eq!(arg.as_bits().len(), 24);
    let literal: Literal = arg.as_literal();
    // fails: InvalidLiteralType
    prg.literal_arg(0, literal.clone())
        .expect("the literal returned by parse_arg is an argument");

    let mut eval = prg.evaluator();
    // fails as well: InvalidLiteralType
    eval.parse_literal("0..3").expect("the range is an argument");
    eval.set_usize(2);
    let out = eval.run().unwrap().into_literal().unwrap();
    assert_eq!(format!("{out}"), "2");
}

/// D3 (lower confidence, literal.rs / check.rs): the value that a circuit returns is printed as
/// a literal without type suffixes, but `Literal::parse` / `parse_arg` cannot read such a literal
/// back if it is a collection whose first element contains only non-negative numbers and a later
/// element contains a negative number: the element type of an array literal is taken from the
/// first element *before* the expected type is applied, so `[[1], [-1]]` is rejected as an
/// argument of type `[[i8; 1]; 2]` ("Expected type unspecified unsigned int, but found
/// unspecified signed int"), although `[1, -1]` is accepted for `[i8; 2]` and the expected type is
/// known completely.
///
/// Correct behaviour: every printed output of type T (and every literal that has exactly one
/// typing as T) can be parsed as an argument of type T.
#[test]
fn printed_value_of_nested_signed_collection_is_an_argument() {
    use garble_lang::token::SignedNumType::I8;
    let prg = compile("pub fn main(x: [[i8; 1]; 2], z: u8) -> [[i8; 1]; 2] { x }").unwrap();
    let value = Literal::Array(vec![
        Literal::Array(vec![Literal::NumSigned(1, I8)]),
        Literal::Array(vec![Literal::NumSigned(-1, I8)]),
    ]);
    let mut eval = prg.evaluator();
    eval.set_literal(value.clone()).unwrap();
    eval.set_u8(0);
    let out = eval.run().unwrap().into_literal().unwrap();
    assert_eq!(out, value);
    let printed = format!("{out}");
    assert_eq!(printed, "[[1], [-1]]");
    // the flat case works:
    let flat = compile("pub fn main(x: [i8; 2], z: u8) -> i8 { x[0] }").unwrap();
    flat.parse_arg(0, "[1, -1]").expect("flat array of signed numbers");
    // fails: type error
    let arg = prg
        .parse_arg(0, &printed)
        .expect("the printed output is an argument of the same type");
    assert_eq!(arg.as_literal(), value);
}
