//! Hunt for violations of property C05 (accepted programs compile to valid circuits whose I/O
//! shape matches their types; well-typed programs are accepted).
//!
//! RESULT: no input was found on which the unchanged code contradicts the property as it is
//! literally stated (no compiler panic, no invalid circuit, no wrong number of parties / input
//! bits / output bits, no undecodable output, no rejection of a program whose literal types are
//! all written out).
//!
//! The tests below are CANDIDATES ONLY (low confidence): programs with *unsuffixed* literals that
//! are rejected although their context determines the literal types (the task description lists
//! "array / tuple elements, match arms, if branches, return position" as places that must give an
//! untyped literal its type). The property's converse clause only speaks about programs "with all
//! literal types written out", and all of these behave the same in the very first commit of the
//! history, so they are long-standing inference limitations rather than regressions. Each test
//! fails on the unchanged code.

use garble_lang::compile;

fn accepted(prg: &str) -> bool {
    match compile(prg) {
        Ok(_) => true,
        Err(e) => {
            println!("{}", e.prettify(prg));
            false
        }
    }
}

/// CANDIDATE 1 (low confidence). Whether an array literal of collections type-checks depends on
/// the ORDER of its elements: the element type is taken from the first element only, so an
/// untyped first element (`[1, 2]`, `(1, 2)`, `[1; N]`, `0..2`) makes every later typed element a
/// type error, even if the expected type is known (return position / let annotation).
/// Correct behaviour: both orders are accepted (and denote the same value up to order), as the
/// version with the typed element first already is.
#[test]
fn array_literal_of_collections_is_order_dependent() {
    // accepted today:
    assert!(accepted("pub fn main(x: u8) -> [[u8; 2]; 2] { [[x, 3], [1, 2]] }"));
    assert!(accepted("pub fn main(x: u8) -> [(u8, u8); 2] { [(x, 3), (1, 2)] }"));
    // the same elements in the other order are rejected
    // (UnexpectedType { expected: Unsigned(Unspecified), actual: Unsigned(U8) }):
    assert!(accepted("pub fn main(x: u8) -> [[u8; 2]; 2] { [[1, 2], [x, 3]] }"));
    assert!(accepted("pub fn main(x: u8) -> [(u8, u8); 2] { [(1, 2), (x, 3)] }"));
}

/// CANDIDATE 2 (low confidence). An untyped collection literal in a match arm / if branch never
/// takes on the type of the other arm (only plain numbers do): `if k { x } else { [1, 2] }` with
/// `x: [u8; 2]` is a TypeMismatch, in both orders, and also when the expected type is known from
/// the return type. The same holds for `==` between a typed collection and a collection literal.
/// Correct behaviour: accepted, like `if k { y } else { 1 }` with `y: u8` is.
#[test]
fn collection_literal_in_branch_does_not_take_type_of_other_branch() {
    // numbers work:
    assert!(accepted("pub fn main(y: u8, k: bool) -> u8 { if k { y } else { 1 } }"));
    assert!(accepted("pub fn main(y: u8, k: bool) -> u8 { match k { true => y, false => 1 } }"));
    // collections of numbers do not:
    assert!(accepted("pub fn main(x: [u8; 2], k: bool) -> [u8; 2] { if k { x } else { [1, 2] } }"));
    assert!(accepted("pub fn main(x: [u8; 2], k: bool) -> [u8; 2] { match k { true => x, false => [1, 2] } }"));
    assert!(accepted("pub fn main(x: (u8, u8), k: bool) -> (u8, u8) { if k { x } else { (1, 2) } }"));
    assert!(accepted("pub fn main(x: [u8; 2], k: bool) -> bool { x == [1, 2] }"));
}

/// CANDIDATE 3 (low confidence, parser). An index expression that STARTS with an unsuffixed
/// number is cut off after that number: `a[1 + 1]` is a parse error (Expected(RightBracket)),
/// while `a[i + 1]`, `a[(1 + 1)]` and `a[1usize + 1usize]` parse (src/parse.rs, ArrayAccess: an
/// `UnsignedNum(_, Unspecified)` token right after `[` is taken to be the whole index).
/// Correct behaviour: the index is parsed as an expression; `a[1 + 1]` is `a[2]`.
#[test]
fn index_expression_starting_with_untyped_number() {
    assert!(accepted("pub fn main(a: [u8; 3], i: usize) -> u8 { a[i + 1] }"));
    assert!(accepted("pub fn main(a: [u8; 3], i: usize) -> u8 { a[1usize + 1usize] }"));
    assert!(accepted("pub fn main(a: [u8; 3], i: usize) -> u8 { a[1 + 1] }"));
    assert!(accepted("pub fn main(a: [u8; 3], i: usize) -> u8 { a[1 + i] }"));
}
