//! Hunt for violations of property C06 ("same source + same constants + same options => the
//! identical circuit, whatever the hash seed / process / number of repetitions").
//!
//! RESULT: no violation found on the unchanged code of this worktree (HEAD ddf9a33).
//! There is therefore no failing #[test] in this file. The one test below is a compact version of
//! the sweeps that were run (the full sweeps are in hunt_out/sweeps/, see notes.md) and PASSES.
//!
//! Five hash-seed dependent *diagnostics* (programs that are rejected on every run, but with a
//! different error list from run to run) were found on the way. They do not contradict C06 as it
//! is stated (no circuit is produced at all), so they are kept apart in
//! hunt_out/diagnostics_extra.rs (5 tests, all FAILING on the unchanged code).

use garble_lang::{CircuitKind, CompileOptions, compile_with_options, literal::Literal, token::UnsignedNumType};
use std::collections::{BTreeSet, HashMap};

/// Every `HashMap::new()` gets fresh SipHash keys (std increments the per-thread key for every
/// `RandomState::new()`), so repeated compilations in one process already run with different
/// iteration orders of all the maps of the parser / checker / compiler / circuit builder.
#[test]
fn c06_holds_on_a_feature_rich_program() {
    let src = "
const N: usize = PARTY_0::N;
const M: usize = max(N, PARTY_1::M) + 1usize;
const K: u8 = 7u8;
struct S { x: u8, y: u8 }
enum E { A, B(u8), C(u8, u8) }
fn g(a: u8, b: u8) -> u8 { a / b }
fn f(a: u8, b: u8) -> u8 { g(a, b) + (a % b) }
pub fn main(a: u8, arr0: [u8; N], s: S, e: E, rows: [(u8, u8); 2], rows2: [(u8, u8); M]) -> (u8, [u8; N]) {
    let mut arr = arr0;
    let mut acc = a + K;
    let mut zz = 0u8;
    let mut aa = 1u8;
    for x in arr {
        if x > s.x { acc = acc + x; zz = zz * x; } else { acc = acc - f(x, s.y); aa = aa / x; }
    }
    match e {
        E::A => { arr[(a as usize)] = acc / aa; }
        E::B(p) => { acc = arr[(p as usize)] % zz; }
        E::C(p, q) => { acc = f(p, q); arr[(q as usize)] = p + q; }
    }
    for joined in join_iter(rows, rows2) {
        let ((_, v), (_, w)) = joined;
        acc = acc + v * w;
        arr[(v as usize)] = w / acc;
    }
    (acc, arr)
}";
    for (opt, reg) in [(true, false), (false, false), (true, true)] {
        let mut seen = BTreeSet::new();
        for _ in 0..32 {
            let mut consts: HashMap<String, HashMap<String, Literal>> = HashMap::new();
            consts.entry("PARTY_1".into()).or_default().insert("M".into(), Literal::NumUnsigned(2, UnsignedNumType::Usize));
            consts.entry("PARTY_0".into()).or_default().insert("N".into(), Literal::NumUnsigned(3, UnsignedNumType::Usize));
            let options = CompileOptions {
                circuit_kind: if reg { CircuitKind::Register } else { CircuitKind::Ssa },
                consts,
                optimize_duplicate_gates: opt,
            };
            let p = compile_with_options(src, options).expect("the program compiles");
            seen.insert(format!("{:?}", p.circuit));
        }
        assert_eq!(seen.len(), 1, "opt={opt} reg={reg}: {} different circuits", seen.len());
    }
}
