// Hunt for violations of property C06 (deterministic compilation).
//
// RESULT: no defect found. There is deliberately NO failing #[test] in this file: every
// experiment (see notes.md) produced bit-identical circuits across hash seeds, threads,
// processes, circuit kinds and repeated compilations.
//
// The two tests below are the (passing) probes closest to the spots that were repaired recently
// (const binding order, panic-cache merge order); they are kept as regression probes only.
// The full harnesses are in corpus_harness.rs (186 programs taken from the project's own tests and
// examples) and fuzz_harness.rs (random program generator, 2500 programs).

use garble_lang::{compile_with_constants, literal::Literal, token::UnsignedNumType};
use std::collections::{HashMap, HashSet};

fn fingerprint(prg: &str, consts: HashMap<String, HashMap<String, Literal>>) -> String {
    let prg = prg.to_string();
    // every thread gets fresh random SipHash keys, every HashMap in it a different seed
    std::thread::spawn(move || match compile_with_constants(&prg, consts) {
        Err(e) => format!("ERR {e:?}"),
        Ok(p) => {
            let c = p.circuit.unwrap_ssa_ref();
            format!("{:?}|{:?}|{:?}", c.input_gates, c.gates, c.output_gates)
        }
    })
    .join()
    .unwrap()
}

// Expected (and observed): one single circuit, whatever the hash seed.
#[test]
fn probe_chained_consts_many_parties_are_deterministic() {
    let mut s = String::new();
    let mut m = HashMap::new();
    for i in 0..30 {
        s += &format!("const A{i}: u8 = Q{i}::V;\nconst B{i}: usize = Q{i}::W;\n");
        m.insert(
            format!("Q{i}"),
            HashMap::from_iter([
                ("V".to_string(), Literal::NumUnsigned(i as u64, UnsignedNumType::U8)),
                ("W".to_string(), Literal::NumUnsigned(1 + i as u64 % 3, UnsignedNumType::Usize)),
            ]),
        );
    }
    s += "const C0: usize = B0;";
    for i in 1..20 {
        s += &format!(" const C{i}: usize = C{} + 1usize;", i - 1);
    }
    s += "\npub fn main(x: u8, a: [u8; C19]) -> u8 { let mut r = x; ";
    for i in 0..30 {
        s += &format!(
            "if r > A{i} {{ r = r + A{i}; }} else {{ r = r / (a[B{i}] + A{i}); }} "
        );
    }
    s += "r }";
    let seen: HashSet<String> = (0..10).map(|_| fingerprint(&s, m.clone())).collect();
    assert_eq!(seen.len(), 1);
    assert!(!seen.iter().next().unwrap().starts_with("ERR"));
}

// Expected (and observed): one single circuit although many panic conditions are cached in
// both branches and have to be merged in `mux_panic`.
#[test]
fn probe_panic_cache_merge_is_deterministic() {
    let prg = "
pub fn main(a: [u8; 4], i: usize, j: usize, k: usize, c: bool, d: u8) -> u8 {
    let x = a[i] + a[j] / d;
    let y = match d {
        0u8 => a[i] + a[k] / d,
        1u8..=9u8 => if c { a[j] - a[i] + a[k] } else { a[k] * a[j] + a[i] },
        _ => a[i] % d + a[j] + a[k],
    };
    if c { a[i] + a[j] + a[k] + x } else { a[k] + a[j] + a[i] + y }
}";
    let seen: HashSet<String> = (0..10).map(|_| fingerprint(prg, HashMap::new())).collect();
    assert_eq!(seen.len(), 1);
    assert!(!seen.iter().next().unwrap().starts_with("ERR"));
}
