//! Property C07 (front end is total): one test per distinct defect found on the unchanged code.
//! Every test FAILS on the unchanged code. Copy this file to `tests/hunt.rs` and run
//! `cargo test --offline --test hunt`.
//!
//! Tests whose defect aborts the whole process (stack overflow) run the offending input in a child
//! process (the same test binary, re-invoked for an `#[ignore]`d helper test), so that the other
//! tests of this file are not taken down with it.

use garble_lang::{
    check, compile, compile_with_constants,
    literal::Literal,
    token::UnsignedNumType,
};
use std::collections::HashMap;
use std::panic::{AssertUnwindSafe, catch_unwind};
use std::process::Command;
use std::time::Duration;

fn panic_msg(p: Box<dyn std::any::Any + Send>) -> String {
    if let Some(s) = p.downcast_ref::<String>() {
        s.clone()
    } else if let Some(s) = p.downcast_ref::<&str>() {
        s.to_string()
    } else {
        "<non-string panic>".into()
    }
}

/// Compiles the program and fails the test if the compiler panics instead of returning Ok / Err.
fn assert_compile_does_not_panic(prg: &str) {
    match catch_unwind(AssertUnwindSafe(|| compile(prg).map(|_| ()).map_err(|e| e.prettify(prg)))) {
        Ok(_) => {}
        Err(p) => panic!("compile() panicked: {}\n  input: {prg}", panic_msg(p)),
    }
}

/// Runs the `#[ignore]`d helper test with the given name in a child process.
fn run_helper_in_child(name: &str) -> std::process::Output {
    Command::new(std::env::current_exe().unwrap())
        .args(["--exact", name, "--ignored", "--nocapture", "--test-threads", "1"])
        .output()
        .unwrap()
}

fn assert_child_survives(name: &str) {
    let out = run_helper_in_child(name);
    assert!(
        out.status.success(),
        "the front end crashed the process ({:?}): {}",
        out.status,
        String::from_utf8_lossy(&out.stderr)
            .lines()
            .filter(|l| l.contains("overflow") || l.contains("panicked"))
            .collect::<Vec<_>>()
            .join(" | ")
    );
}

// ---------------------------------------------------------------------------------------------
// Defect 1: recursive struct / enum definitions are not rejected; type checking (exhaustiveness of
// a `let` pattern / `match`) and compiling (size_in_bits_for_defs) recurse forever -> stack
// overflow, the process is aborted (cannot even be caught with catch_unwind).
//
// Correct behaviour: `check` / `compile` return a type error ("recursive type"), or at least any
// error, without crashing.
// ---------------------------------------------------------------------------------------------
#[test]
#[ignore]
fn helper_recursive_struct_compile() {
    // overflows in compile (Type::size_in_bits_for_defs)
    let _ = compile("struct S { a: S } pub fn main(s: S) -> u8 { 0 }");
}

#[test]
#[ignore]
fn helper_recursive_enum_check() {
    // overflows in check (check_exhaustiveness of the let pattern)
    let _ = check("enum E { A, B(E) } pub fn main(x: u8) -> u8 { let e = E::A; x }");
}

#[test]
fn recursive_type_definitions_do_not_crash_the_front_end() {
    assert_child_survives("helper_recursive_struct_compile");
    assert_child_survives("helper_recursive_enum_check");
}

// ---------------------------------------------------------------------------------------------
// Defect 2: the parser / type checker / compiler recurse once per nesting level without any depth
// limit, with very large stack frames. In a debug build `x + x + ... + x` with ~110 terms (or ~250
// nested parentheses) already overflows the 8 MiB main stack (far fewer on a 2 MiB test thread);
// in a release build ~1000 levels are enough. The process is aborted.
//
// Correct behaviour: Ok, or an error such as "expression nested too deeply"; never an abort.
// ---------------------------------------------------------------------------------------------
#[test]
#[ignore]
fn helper_deeply_nested_parens() {
    let n = 3000;
    let prg = format!("pub fn main(x: u8) -> u8 {{ {}x{} }}", "(".repeat(n), ")".repeat(n));
    let _ = compile(&prg);
}

#[test]
#[ignore]
fn helper_long_sum() {
    let prg = format!("pub fn main(x: u8) -> u8 {{ {} }}", vec!["x"; 3000].join(" + "));
    let _ = check(&prg);
}

#[test]
fn deeply_nested_input_does_not_crash_the_front_end() {
    assert_child_survives("helper_deeply_nested_parens");
    assert_child_survives("helper_long_sum");
}

// ---------------------------------------------------------------------------------------------
// Defect 3: assigning to an element of an array whose element type has a size of 0 bits (empty
// struct, empty array, ...) panics with "attempt to divide by zero" (src/compile.rs:542,
// `array.len() / elem_bits`). The program is accepted by the type checker.
//
// Correct behaviour: compiles (the assignment is a no-op apart from the bounds check) or is
// rejected with an error.
// ---------------------------------------------------------------------------------------------
#[test]
fn assignment_to_array_of_zero_sized_elements_does_not_panic() {
    assert_compile_does_not_panic(
        "struct Z {} pub fn main(x: u8) -> u8 { let mut a = [Z {}; 3]; a[0] = Z {}; x }",
    );
    assert_compile_does_not_panic(
        "pub fn main(x: u8) -> u8 { let mut a = [[x; 0]; 3]; a[0][1] = 2; x }",
    );
}

// ---------------------------------------------------------------------------------------------
// Defect 4: array sizes are never checked against what can be represented: the size in bits is
// computed with unchecked multiplications (src/compile.rs:1530/1535) and used as a Vec capacity.
// Debug build: "attempt to multiply with overflow"; release build: "capacity overflow" (or a
// silently wrapped size). The same happens for sizes coming from const expressions, which wrap
// around (`const N: usize = 0usize - 1usize;`, `min()`).
// (With the array as the only parameter of main the compiler instead pushes wires in an unbounded
// loop until the process runs out of memory - not part of this test.)
//
// Correct behaviour: an error saying that the array / the circuit is too large.
// ---------------------------------------------------------------------------------------------
#[test]
fn huge_array_sizes_are_reported_as_errors_not_panics() {
    assert_compile_does_not_panic(
        "pub fn main(x: [u64; 18446744073709551615], y: u8) -> u8 { y }",
    );
    assert_compile_does_not_panic("pub fn main(y: u8) -> u8 { let a = [y; 1152921504606846976]; y }");
    assert_compile_does_not_panic(
        "const N: usize = 2usize; pub fn main(x: [u8; const { N - 3usize }], y: u8) -> u8 { y }",
    );
}

// ---------------------------------------------------------------------------------------------
// Defect 5: `join(a, b)` and `for .. in join_iter(a, b)` of two arrays that are both empty panic
// with "attempt to subtract with overflow" (src/compile.rs:1708, `num_elems_a + num_elems_b - 1`;
// release build: "capacity overflow"). The type checker computes the result size the same way
// (`(a.size + b.size) - 1`, check.rs join_array_size) and accepts the program.
//
// Correct behaviour: compiles to an empty result / no loop iterations, or a type error.
// ---------------------------------------------------------------------------------------------
#[test]
fn join_of_two_empty_arrays_does_not_panic() {
    assert_compile_does_not_panic("pub fn main(x: [u8; 0]) -> u8 { let j = join(x, x); 0 }");
    assert_compile_does_not_panic(
        "pub fn main(x: [(u8, u8); 0]) -> u8 { for j in join_iter(x, x) { } 0 }",
    );
}

// ---------------------------------------------------------------------------------------------
// Defect 6: a struct literal that names one field twice and omits another one passes the type
// checker (missing fields are only looked for if the literal has fewer fields than the struct,
// check.rs `struct_def.len() > fields.len()`), then the compiler panics with
// "called `Option::unwrap()` on a `None` value" (src/compile.rs:1347). The same literal is also
// accepted by `parse_arg`, whose result then panics in `as_bits` (src/literal.rs:493).
//
// Correct behaviour: a type error (duplicate field `a` / missing field `b`).
// ---------------------------------------------------------------------------------------------
#[test]
fn struct_literal_with_duplicate_field_is_a_type_error_not_a_panic() {
    let prg = "struct S { a: u8, b: bool } pub fn main(x: u8) -> u8 { let s = S { a: x, a: 2 }; s.a }";
    assert_compile_does_not_panic(prg);
    assert!(check(prg).is_err(), "S {{ a: x, a: 2 }} must not type-check for struct S {{ a, b }}");
}

// ---------------------------------------------------------------------------------------------
// Defect 7: the declared type of a `const` is never resolved / validated (it stays an
// `UntypedTopLevelDefinition`), so using a const whose type mentions a struct or an enum - or a
// name that does not exist at all - makes the type checker hit
// `unreachable!("Untyped top level types should have been typechecked at this point")`
// (src/check.rs:1526 for `match`, src/check.rs:2271 for `let` / `for`).
//
// Correct behaviour: `Unknown struct or enum 'Foo'` for the first program; the second program
// is valid and should type-check (and only fail later because P::X was not provided).
// ---------------------------------------------------------------------------------------------
#[test]
fn const_of_struct_or_enum_type_does_not_panic_the_type_checker() {
    for prg in [
        "const A: Foo = P::X; pub fn main(y: u8) -> u8 { let b = A; y }",
        "enum E { A, B(u8) } const C: E = P::X; pub fn main(y: u8) -> u8 { match C { E::A => y, E::B(x) => x } }",
    ] {
        match catch_unwind(AssertUnwindSafe(|| check(prg).map(|_| ()).map_err(|e| e.prettify(prg)))) {
            Ok(_) => {}
            Err(p) => panic!("check() panicked: {}\n  input: {prg}", panic_msg(p)),
        }
    }
}

// ---------------------------------------------------------------------------------------------
// Defect 8: number literals without a type suffix that sit inside a tuple / array which is then
// projected (`.0`, `[i]`) keep their default width of 32 bits, although the type checker gives the
// projected value the type demanded by the context ((i8, i8), [u8; 1], ...). The wires produced
// for the expression then do not match its type and the compiler trips over its own assertions:
//   - src/compile.rs:1232 `assert_eq!(case_true.len(), case_false.len())` (if / else),
//   - src/circuit.rs:784 "Bindings of variable 'a' have different lengths" (assignment in a branch),
//   - src/compile.rs:1762 "attempt to subtract with overflow" in extend_to_bits (array repeat),
//   - src/compile.rs:594 copy_from_slice length mismatch (assignment to a tuple field), ...
//
// Correct behaviour: these (well-typed) programs compile; or, if such literals cannot be
// constrained, the type checker reports a type error.
// ---------------------------------------------------------------------------------------------
#[test]
fn unsuffixed_literals_in_projected_aggregates_do_not_panic_the_compiler() {
    assert_compile_does_not_panic(
        "pub fn main(b: bool) -> (i8, i8) { if b { ((0, 0), 1).0 } else { (0, 0) } }",
    );
    assert_compile_does_not_panic(
        "pub fn main(x: u8) -> u8 { let mut a = (x, x); if x > 1 { a = ((1, 2), 3).0; } a.0 }",
    );
    assert_compile_does_not_panic("pub fn main(x: u8) -> [[u8; 1]; 2] { [[[0]][0]; 2] }");
    assert_compile_does_not_panic(
        "pub fn main(x: u8) -> u8 { let mut a = ((x, x), x); a.0 = ((1, 2), 3).0; x }",
    );
}

// ---------------------------------------------------------------------------------------------
// Defect 9: `GarbleProgram::parse_arg` / `Literal::parse` panic with
// `unreachable!("This should result in a literal parse error instead")` (src/literal.rs:652) for
// literal strings that parse and type-check but are not plain literals:
//   - an array repeat literal whose size is a const: "[1; N]" for a parameter of type [u8; N],
//   - the struct field shorthand "S { a }" if the program has a const named `a`.
//
// Correct behaviour: Ok(literal) for "[1; N]" (N is known), or Err(LiteralParseError); never a
// panic.
// ---------------------------------------------------------------------------------------------
#[test]
fn parse_arg_with_const_sized_repeat_literal_does_not_panic() {
    let prg = "const N: usize = 2usize; const a: u8 = 1u8; struct S { a: u8 }
pub fn main(x: [u8; N], s: S) -> u8 { x[0] + s.a }";
    let compiled = compile(prg).unwrap_or_else(|e| panic!("{}", e.prettify(prg)));
    for (i, literal) in [(0, "[1; N]"), (1, "S { a }")] {
        match catch_unwind(AssertUnwindSafe(|| compiled.parse_arg(i, literal).map(|_| ()))) {
            Ok(_) => {}
            Err(p) => panic!("parse_arg({i}, {literal:?}) panicked: {}", panic_msg(p)),
        }
    }
}

// ---------------------------------------------------------------------------------------------
// Defect 10: if two consts of different types are bound to the same external value, only the type
// of one of them is remembered in `const_deps` (HashMap keyed by the value's name). With a literal
// of that type provided, `compile_with_constants` panics with
// "called `Option::unwrap()` on a `None` value" (src/compile.rs:160) when it looks up the size of
// the `usize` const.
//
// Correct behaviour: an error (the value cannot be both a usize and a u8), e.g. a type error or
// CompilerError::InvalidLiteralType.
// ---------------------------------------------------------------------------------------------
#[test]
fn external_value_bound_to_consts_of_two_types_does_not_panic() {
    let prg = "const A: usize = P::X; const B: u8 = P::X; pub fn main(y: u8) -> u8 { y + B }";
    let mut consts = HashMap::new();
    consts.insert(
        "P".to_string(),
        HashMap::from([("X".to_string(), Literal::NumUnsigned(1, UnsignedNumType::U8))]),
    );
    match catch_unwind(AssertUnwindSafe(|| compile_with_constants(prg, consts).map(|_| ()))) {
        Ok(_) => {}
        Err(p) => panic!("compile_with_constants() panicked: {}", panic_msg(p)),
    }
}

// ---------------------------------------------------------------------------------------------
// Defect 11: the exhaustiveness check (check.rs `usefulness`) always enumerates every combination
// of constructors of all columns, even where a row of wildcards already covers everything. For a
// match on a tuple of n bools with the n "diagonal" arms (true, _, ..), (_, true, _, ..), ... and a
// final all-false arm (an exhaustive, perfectly valid match of n + 1 arms) it takes time
// exponential in n: n = 16: 1 s, n = 20: ~35 s, n = 24: ~20 min (debug build; release build is
// only ~3x faster), i.e. type checking effectively hangs on a program of < 1500 tokens.
//
// Correct behaviour: type checking such a program terminates promptly (rustc needs milliseconds).
// ---------------------------------------------------------------------------------------------
#[test]
fn exhaustiveness_check_terminates_promptly() {
    let n = 20;
    let ty = vec!["bool"; n].join(", ");
    let mut arms = String::new();
    for i in 0..n {
        let cols: Vec<&str> = (0..n).map(|j| if i == j { "true" } else { "_" }).collect();
        arms += &format!("({}) => 1, ", cols.join(", "));
    }
    arms += &format!("({}) => 0, ", vec!["false"; n].join(", "));
    let prg = format!("pub fn main(x: ({ty})) -> u8 {{ match x {{ {arms} }} }}");
    let (tx, rx) = std::sync::mpsc::channel();
    std::thread::spawn(move || {
        let r = check(&prg).map(|_| ()).map_err(|e| e.prettify(&prg));
        let _ = tx.send(r);
    });
    match rx.recv_timeout(Duration::from_secs(10)) {
        Ok(r) => r.expect("the match is exhaustive and well-typed"),
        Err(_) => panic!("type checking a match with {} arms did not finish within 10 s", n + 1),
    }
}
