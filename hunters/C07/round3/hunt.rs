//! Property C07: the front end is total - any input text gives Ok or errors, never a crash or hang.
//!
//! One test per distinct defect, each FAILS on the unchanged code.
//! (Copy to tests/hunt.rs and run `cargo test --offline --test hunt`.)
//!
//! Tests that would otherwise take the whole test binary down (stack overflow = SIGABRT) or never
//! return (hang) re-run themselves in a child process: the parent starts the same test binary with
//! `HUNT_CHILD=<test name>`, the child does the actual call, the parent checks the exit status and
//! kills the child after a timeout.

use std::{
    panic::{AssertUnwindSafe, catch_unwind},
    process::{Command, ExitStatus, Stdio},
    time::{Duration, Instant},
};

use garble_lang::{check, compile};

fn is_child(test_name: &str) -> bool {
    std::env::var("HUNT_CHILD").as_deref() == Ok(test_name)
}

/// Runs the test `test_name` of this test binary in a child process (where `is_child` is true).
/// Returns `None` if the child did not finish within `timeout` (it is killed then).
fn run_in_child(test_name: &str, timeout: Duration) -> Option<ExitStatus> {
    let exe = std::env::current_exe().unwrap();
    let mut child = Command::new(exe)
        .args([test_name, "--exact", "--nocapture", "--test-threads=1"])
        .env("HUNT_CHILD", test_name)
        .stdout(Stdio::null())
        .spawn()
        .unwrap();
    let start = Instant::now();
    loop {
        if let Some(status) = child.try_wait().unwrap() {
            return Some(status);
        }
        if start.elapsed() > timeout {
            child.kill().ok();
            child.wait().ok();
            return None;
        }
        std::thread::sleep(Duration::from_millis(50));
    }
}

/// DEFECT 1: the type checker (and the compiler, and the parser for nested input) recurse once per
/// nesting level of the AST without any limit, with very large stack frames. A *flat* chain of
/// binary operators (which the parser builds in a loop) is a left-deep tree, so a sum of N terms
/// needs N nested `type_check` frames: the process dies with a stack overflow (SIGABRT) instead of
/// returning.
///
/// Measured on a 2 MiB stack (default of spawned / test threads): debug build crashes at 40 terms,
/// release build at 300 terms. Here: 2000 terms on an 8 MiB stack (the usual main-thread size).
/// The same happens with `if .. else if .. else if ..` chains, `((((x))))`, `!!!!x`, `[[[[x]]]]`.
///
/// Correct behaviour: `compile` returns Ok (the program is a valid u8 sum), or at the very least an
/// error ("expression too deeply nested") - but never takes the process down.
#[test]
fn long_operator_chain_overflows_the_stack() {
    const NAME: &str = "long_operator_chain_overflows_the_stack";
    if is_child(NAME) {
        let prg = format!("pub fn main(x: u8) -> u8 {{ x{} }}", " + x".repeat(2000));
        let handle = std::thread::Builder::new()
            .stack_size(8 * 1024 * 1024)
            .spawn(move || compile(&prg).is_ok())
            .unwrap();
        assert!(handle.join().unwrap(), "a sum of 2000 terms is a valid program");
        return;
    }
    let status = run_in_child(NAME, Duration::from_secs(120));
    assert!(
        matches!(status, Some(s) if s.success()),
        "compile() of `x + x + ... + x` (2000 terms) did not return normally: {status:?} \
         (SIGABRT = stack overflow in the recursive type checker)"
    );
}

/// DEFECT 2: the exhaustiveness check (`usefulness` in check.rs) splits every column of a pattern
/// row into its constructors even if all rows are wildcards, and each bool / number column has two
/// constructors: a wildcard (or plain identifier) pattern of a tuple / struct type with n scalar
/// fields costs 2^n steps. Since the irrefutability check of `let` / `for` patterns was added
/// (commit a9fb7c7) this hits every `let u = t;` - before that only `match`.
/// Measured (opt-level 1): 16 fields 80 ms, 20 fields 1.1 s, 22 fields 3.9 s => 40 fields: days.
///
/// Correct behaviour: the program below type-checks (in milliseconds).
#[test]
fn let_binding_of_a_wide_tuple_takes_exponential_time() {
    const NAME: &str = "let_binding_of_a_wide_tuple_takes_exponential_time";
    if is_child(NAME) {
        let fields = vec!["u8"; 40].join(", ");
        let prg = format!("pub fn main(t: ({fields})) -> u8 {{ let u = t; u.0 }}");
        assert!(check(&prg).is_ok());
        return;
    }
    let status = run_in_child(NAME, Duration::from_secs(20));
    assert!(
        matches!(status, Some(s) if s.success()),
        "type checking `let u = t;` for a tuple of 40 u8 fields did not finish within 20 s: {status:?}"
    );
}

/// DEFECT 3: array sizes are never validated. The size expression of `[T; const { .. }]` (and of
/// usize consts) is evaluated with wrapping arithmetic (see the TODO / issue #227 in compile.rs), so
/// `2 - 3` is an array of 2^64 - 1 elements, and `size_in_bits_for_defs` multiplies element size and
/// length unchecked: compile() panics with "attempt to multiply with overflow" (debug) instead of
/// reporting an error. The same panic for a literal size: `let a = [x; 18446744073709551615];`,
/// `fn main(x: u8, a: [u8; 18446744073709551615])`, `[u8; const { min() }]`, and for a usize const
/// computed from a value supplied by a party (`const M: usize = N - 1usize;` with PARTY::N = 0).
///
/// Correct behaviour: an error (negative / unrepresentable array size), no panic.
#[test]
fn underflowing_array_size_expression_panics() {
    let prg = "pub fn main(i: usize, arr: [i32; const { 2 - 3 }]) -> i32 { arr[i] }";
    let res = catch_unwind(AssertUnwindSafe(|| compile(prg).map(|_| ())));
    assert!(res.is_ok(), "compile() panicked instead of returning an error for {prg}");
    assert!(res.unwrap().is_err(), "an array of -1 elements cannot be compiled");
}

/// DEFECT 4: the result type of `join(a, b)` is `[_; a.len + b.len - 1]` (join_array_size in
/// check.rs), computed with wrapping arithmetic: for two empty arrays that is 2^64 - 1 elements,
/// although the compiled value has 0 elements. Commit 37a902e made the join itself compile, but any
/// use of the result that looks at its type panics: putting it in a tuple / array / match
/// ("attempt to multiply with overflow" in size_in_bits_for_defs), assigning to an element
/// ("index out of bounds: the len is 0 but the index is 0" at compile.rs:607, also in release).
/// (Sizes of 0 are real: array sizes can be consts supplied by the parties.)
///
/// Correct behaviour: the programs compile (the join of two empty arrays is an empty array; the
/// element assignment is an out-of-bounds panic of the *circuit* at run time), or are rejected with
/// an error - compile() must not panic.
#[test]
fn using_the_join_of_two_empty_arrays_panics() {
    for prg in [
        "pub fn main(x: u8) -> u8 { let a = [x; 0]; let b = [x; 0]; let j = join(a, b); let t = (j, x); x }",
        "pub fn main(x: u8) -> u8 { let a = [x; 0]; let b = [x; 0]; let mut j = join(a, b); j[0] = (true, x); x }",
    ] {
        let res = catch_unwind(AssertUnwindSafe(|| compile(prg).map(|_| ())));
        assert!(res.is_ok(), "compile() panicked for {prg}");
    }
}

/// DEFECT 5: an array repeat literal is lowered with `for _ in 0..size { extend_from_slice(elem) }`
/// (compile.rs, ExprEnum::ArrayRepeatLiteral) even if the element has no bits at all. The array
/// below consists of 0 bits (no overflow, no allocation), but the loop runs 2^64 - 1 times:
/// compile() never returns. (`[(); 4294967295]` "only" takes ~17 s at opt-level 1, ~4 ns per
/// element.) Related: `size_in_bits_for_defs` walks nested struct definitions without memoisation,
/// so 40 definitions `struct S{i} { a: S{i-1}, b: S{i-1} }` over `struct S0 {}` (0 bits in total)
/// take 2^40 steps for a parameter of type S40.
///
/// Correct behaviour: compile() returns promptly (Ok: the value has 0 bits; or an error).
#[test]
fn huge_array_of_zero_sized_elements_never_finishes() {
    const NAME: &str = "huge_array_of_zero_sized_elements_never_finishes";
    if is_child(NAME) {
        let prg = "pub fn main(x: u8) -> u8 { let a = [(); 18446744073709551615]; x }";
        let _ = compile(prg);
        return;
    }
    let status = run_in_child(NAME, Duration::from_secs(20));
    assert!(
        matches!(status, Some(s) if s.success()),
        "compile() of `let a = [(); 18446744073709551615];` (0 bits) did not finish within 20 s: {status:?}"
    );
}
