//! Property C07: the front end is total. Any input text gives Ok or a non-empty list of errors,
//! never a crash (panic / abort) and never a hang.
//!
//! One test per distinct defect; every test FAILS on the unchanged code.
//! (Copy to tests/hunt.rs and run `cargo test --offline --test hunt`.)

use garble_lang::compile;
use std::panic::{AssertUnwindSafe, catch_unwind};
use std::sync::mpsc;
use std::time::Duration;

/// Outcome of running `compile` on a worker thread.
#[derive(Debug)]
enum Outcome {
    /// compile returned (Ok or Err), as it should
    Returned,
    /// compile panicked with the given message
    Panicked(#[allow(dead_code)] String),
    /// compile did not return within the time limit
    TimedOut,
}

fn run_compile(src: &str, limit: Duration) -> Outcome {
    let (tx, rx) = mpsc::channel();
    let src = src.to_string();
    // (a generous stack, so that these tests are not about the recursion depth)
    std::thread::Builder::new()
        .stack_size(256 * 1024 * 1024)
        .spawn(move || {
            let r = catch_unwind(AssertUnwindSafe(|| compile(&src).map(|_| ())));
            let outcome = match r {
                Ok(Ok(())) => Outcome::Returned,
                Ok(Err(e)) => {
                    // rendering the error must work as well
                    let _ = e.prettify(&src);
                    Outcome::Returned
                }
                Err(p) => {
                    let msg = if let Some(s) = p.downcast_ref::<String>() {
                        s.clone()
                    } else if let Some(s) = p.downcast_ref::<&str>() {
                        s.to_string()
                    } else {
                        "<non-string panic>".to_string()
                    };
                    Outcome::Panicked(msg)
                }
            };
            let _ = tx.send(outcome);
        })
        .unwrap();
    rx.recv_timeout(limit).unwrap_or(Outcome::TimedOut)
}

fn assert_returns(src: &str, limit: Duration) {
    let outcome = run_compile(src, limit);
    assert!(
        matches!(outcome, Outcome::Returned),
        "compile did not return a result for {:?}: {outcome:?}",
        src.chars().take(200).collect::<String>()
    );
}

fn assert_all_return(prgs: &[&str], limit: Duration) {
    let mut failures = vec![];
    for prg in prgs {
        let outcome = run_compile(prg, limit);
        if !matches!(outcome, Outcome::Returned) {
            failures.push(format!("{prg:?}: {outcome:?}"));
        }
    }
    assert!(
        failures.is_empty(),
        "compile did not return a result for:\n{}",
        failures.join("\n")
    );
}

/// Defect 1: `join` of two EMPTY arrays. The type checker gives the result the length
/// `(0 + 0) - 1`, evaluated with wrapping arithmetic = usize::MAX, while the compiler produces
/// `(0 + 0).saturating_sub(1) = 0` elements. Any later use that trusts the type panics
/// (index out of bounds at compile.rs:612, or arithmetic overflow in `size_in_bits_for_defs`).
///
/// Correct behaviour: the program is valid (the join of two empty arrays is an empty array, so the
/// assignment is an out-of-bounds access at run time) and must compile, or be rejected with an
/// error; it must not panic.
#[test]
fn join_of_two_empty_arrays_panics() {
    assert_all_return(
        &[
            // index out of bounds in the compilation of the assignment:
            "pub fn main(y: u8) -> u8 { let mut a = join([y; 0], [y; 0]); a[0] = (true, y); y }",
            // second symptom of the same cause: storing the result overflows the size computation
            "pub fn main(y: u8) -> u8 { let a = join([y; 0], [y; 0]); let b = [a; 2]; y }",
        ],
        Duration::from_secs(20),
    );
}

/// Defect 2: a const size expression that underflows (`2 - 3`, or `0usize - 1usize` in a
/// `const N: usize`, or `min()` without arguments) is evaluated with wrapping arithmetic and gives
/// an array of 2^64 - 1 elements; computing its size in bits panics ("attempt to multiply with
/// overflow" with overflow checks, "capacity overflow" without).
///
/// Correct behaviour: an error (the size expression is not a valid array size), no panic.
#[test]
fn underflowing_const_size_expression_panics() {
    assert_all_return(
        &[
            "pub fn main(x: [u8; const { 2 - 3 }], y: u8) -> u8 { y }",
            "const N: usize = 0usize - 1usize;\npub fn main(x: [u8; N], y: u8) -> u8 { y }",
            "const N: usize = min();\npub fn main(x: [u8; N], y: u8) -> u8 { y }",
        ],
        Duration::from_secs(20),
    );
}

/// Defect 3: array sizes are accepted up to u64::MAX, the size in bits (`elem_bits * size`) is
/// computed without any check: panic "attempt to multiply with overflow" (compile.rs:1595) or
/// "capacity overflow" in builds without overflow checks.
///
/// Correct behaviour: an error saying that the array is too large, no panic.
#[test]
fn huge_array_size_panics() {
    assert_all_return(
        &[
            "pub fn main(x: [u8; 18446744073709551615], y: u8) -> u8 { y }",
            // a repeat literal with 1-bit elements: no multiplication overflows here, but
            // `Vec::with_capacity(2^64 - 1)` panics with "capacity overflow":
            "pub fn main(b: bool) -> bool { b & [true; 18446744073709551615][1] }",
        ],
        Duration::from_secs(20),
    );
}

/// Defect 4: a repeat literal of zero-sized elements has no bits at all, but the compiler loops
/// once per element: 2^64 - 1 iterations, i.e. it hangs forever (without allocating anything).
///
/// Correct behaviour: returns promptly (Ok, the value has 0 bits; or an error about the size).
#[test]
fn huge_array_of_zero_sized_elements_hangs() {
    let prg = "pub fn main(y: u8) -> u8 { let a = [(); 18446744073709551615]; y }";
    assert_returns(prg, Duration::from_secs(10));
}

/// Defect 5: the exhaustiveness check is exponential in the number of columns for a harmless
/// match: n rows that each look at one column, plus a wildcard arm. Every additional column
/// doubles the time (16 columns: 0.5 s, 20 columns: 10 s, 24 columns: minutes) although the last
/// arm makes the match trivially exhaustive.
///
/// Correct behaviour: terminates promptly (the program is valid).
#[test]
fn exhaustiveness_check_is_exponential() {
    let n = 24;
    let ty = vec!["bool"; n].join(", ");
    let mut arms = vec![];
    for i in 0..n {
        let mut row = vec!["_"; n];
        row[i] = "true";
        arms.push(format!("({}) => 1", row.join(", ")));
    }
    arms.push("_ => 0".to_string());
    let prg = format!(
        "pub fn main(x: ({ty})) -> u8 {{ match x {{ {} }} }}",
        arms.join(", ")
    );
    assert_returns(&prg, Duration::from_secs(10));
}

/// Defect 6: scanning is iterative, but parsing, type checking, compiling (and dropping the AST)
/// recurse once per nesting level / per operand of a left-associative chain, without any depth
/// limit, and with large stack frames. A plain sum of 2000 terms overflows an 8 MiB stack (the
/// size of a main thread): the process is aborted by SIGSEGV/SIGABRT, which no caller can catch.
/// (Measured with 8 MiB: a sum of ~105 terms or ~150 nested parentheses in a debug build, a sum of
/// ~1150 terms or ~800 nested parentheses in an optimized build.)
///
/// Correct behaviour: Ok, or an error such as "expression is nested too deeply"; never a crash.
///
/// The overflow kills the whole process, so the compilation runs in a child process (this test
/// binary itself, restricted to the helper test below).
#[test]
fn long_sum_overflows_the_stack() {
    let exe = std::env::current_exe().unwrap();
    let out = std::process::Command::new(exe)
        .args(["--exact", "stack_overflow_child", "--nocapture", "--test-threads=1"])
        .env("HUNT_STACK_CHILD", "1")
        .output()
        .unwrap();
    assert!(
        out.status.success(),
        "the child process that compiles `x + x + ... + x` (2000 terms) died: {:?}\n{}",
        out.status,
        String::from_utf8_lossy(&out.stderr)
            .lines()
            .filter(|l| l.contains("overflow") || l.contains("abort"))
            .collect::<Vec<_>>()
            .join("\n")
    );
}

/// Helper of `long_sum_overflows_the_stack` (does nothing when run on its own).
#[test]
fn stack_overflow_child() {
    if std::env::var("HUNT_STACK_CHILD").is_err() {
        return;
    }
    let prg = format!("pub fn main(x: u8) -> u8 {{ x{} }}", " + x".repeat(2000));
    let h = std::thread::Builder::new()
        .stack_size(8 * 1024 * 1024)
        .spawn(move || {
            let r = compile(&prg);
            println!("compile returned, ok = {}", r.is_ok());
        })
        .unwrap();
    h.join().unwrap();
}
