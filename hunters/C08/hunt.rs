//! Property C08: match exhaustiveness verdicts are exact and the first matching arm decides.
//! One test per distinct defect; each test FAILS on the unchanged code.
use garble_lang::{
    CompileTimeError, Error,
    ast::{Pattern, PatternEnum, Type},
    check::TypeErrorEnum,
    compile,
};

/// Compiles `src`, expects it to be rejected as non-exhaustive and returns the reported missing
/// cases (each one is a stack of patterns, for a single scrutinee the stack has one element).
fn missing_cases(src: &str) -> Vec<Vec<Pattern<Type>>> {
    match compile(src) {
        Ok(_) => panic!("expected a non-exhaustive match to be rejected:\n{src}"),
        Err(Error::CompileTimeError(CompileTimeError::TypeError(errs))) => {
            for e in &errs {
                if let TypeErrorEnum::PatternsAreNotExhaustive(missing) = &*e.0 {
                    return missing.clone();
                }
            }
            panic!("no PatternsAreNotExhaustive error: {errs:?}")
        }
        Err(e) => panic!("unexpected error {e:?}"),
    }
}

fn eval_u8(src: &str, arg: &str) -> Result<String, String> {
    let prg = compile(src).map_err(|e| e.prettify(src))?;
    let mut ev = prg.evaluator();
    ev.parse_literal(arg).map_err(|e| format!("{e:?}"))?;
    let out = ev.run().map_err(|e| format!("{e:?}"))?;
    Ok(format!("{}", out.into_literal().map_err(|e| format!("{e:?}"))?))
}

/// DEFECT 1: for SIGNED scrutinees a reported missing range includes a value that an arm matches.
///
/// `match x { 5 => .. }` on i8 is (correctly) rejected, but the missing cases are reported as
/// `-128i8`, `-128i8..=4i8`, `5i8..=127i8`: the last one contains 5, which the only arm matches.
/// Correct behaviour (and what the unsigned variant does: `0u8`, `1u8..=4u8`, `6u8..=255u8`):
/// every reported missing case denotes only values that no arm matches, i.e. `6i8..=127i8`.
#[test]
fn signed_missing_case_contains_value_matched_by_an_arm() {
    let src = "pub fn main(x: i8) -> u8 { match x { 5 => 1u8 } }";
    for case in missing_cases(src) {
        assert_eq!(case.len(), 1);
        let (lo, hi) = match &case[0].0 {
            PatternEnum::SignedInclusiveRange(lo, hi, _) => (*lo, *hi),
            PatternEnum::NumSigned(n, _) => (*n, *n),
            PatternEnum::UnsignedInclusiveRange(lo, hi, _) => (*lo as i64, *hi as i64),
            PatternEnum::NumUnsigned(n, _) => (*n as i64, *n as i64),
            other => panic!("unexpected witness {other:?}"),
        };
        assert!(
            !(lo <= 5 && 5 <= hi),
            "missing case `{}` contains 5, but 5 is matched by the arm `5 => ..`",
            case[0]
        );
    }
}

/// DEFECT 2: missing cases of NESTED patterns are put together wrongly (the columns that follow a
/// nested tuple / enum / struct are swallowed by it, or dropped).
///
/// For `(E, bool)` with arms `(E::A, _)` and `(E::B(_), true)` the reported missing cases are
/// `(E::B(0u8, false))` and `(E::B(1u8..=255u8, false))`: a 1-tuple for a 2-tuple type, whose
/// variant `B` has two fields although `B` is declared with one. These patterns are ill-typed and
/// denote no value of the scrutinee type. Correct: `(E::B(0u8), false)` (or `(E::B(_), false)`).
/// (For structs the trailing columns are silently dropped instead, e.g. for `(P, bool)` with the
/// single arm `(P { x: true, y: true }, true)` the case `(P { x: true, y: true})` is reported,
/// which -- read as a pattern with the remaining field ignored -- covers the matched value.)
#[test]
fn nested_missing_case_is_malformed() {
    let src = "enum E { A, B(u8) }
pub fn main(x: (E, bool)) -> u8 { match x { (E::A, _) => 1u8, (E::B(_), true) => 2u8 } }";
    let cases = missing_cases(src);
    assert!(!cases.is_empty());
    for case in cases {
        assert_eq!(case.len(), 1);
        let PatternEnum::Tuple(fields) = &case[0].0 else {
            panic!("expected a tuple pattern, found `{}`", case[0])
        };
        assert_eq!(
            fields.len(),
            2,
            "the scrutinee is a 2-tuple, but the missing case `{}` has {} field(s)",
            case[0],
            fields.len()
        );
        if let PatternEnum::EnumTuple(_, variant, variant_fields) = &fields[0].0 {
            assert_eq!(variant, "B");
            assert_eq!(
                variant_fields.len(),
                1,
                "E::B has 1 field, but the missing case `{}` gives it {}",
                case[0],
                variant_fields.len()
            );
        }
        // the second field has to exclude `true` whenever the first is E::B(..):
        assert!(matches!(fields[1].0, PatternEnum::False));
    }
}

/// DEFECT 3: if the scrutinee has no explicit integer type (an unsuffixed literal, directly or via
/// `let`), number patterns are not checked against the 32 bits that are used for the comparison;
/// they are silently truncated. The result is then neither "the first arm whose pattern matches"
/// nor is the acceptance verdict right.
///
/// * `match y { 4294967301 => 1, _ => 2 }` with y = 5 yields 1, although 5 != 4294967301
///   (4294967301 = 2^32 + 5). Correct: 2 (or rejecting the out-of-range pattern, as is done for
///   every explicitly typed scrutinee: "The pattern does not match the type").
/// * `match y { 0..=4294967296 => 1 }` is accepted as exhaustive, but for y = 5 NO arm is selected
///   and the match evaluates to 0 (the range is compiled as 0..=0). Correct: 1 (or a rejection).
#[test]
fn untyped_scrutinee_truncates_out_of_range_patterns() {
    let src = "pub fn main(x: u8) -> u8 { let y = 5; match y { 4294967301 => 1u8, _ => 2u8 } }";
    if let Ok(r) = eval_u8(src, "0") {
        assert!(r == "2" || r == "2u8", "5 does not match 4294967301, expected 2, got {r}");
    } // (a compile time error for the out-of-range pattern would be fine, too)

    let src = "pub fn main(x: u8) -> u8 { let y = 5; match y { 0..=4294967296 => 1u8 } }";
    if let Ok(r) = eval_u8(src, "0") {
        assert!(r == "1" || r == "1u8", "5 is in 0..=4294967296, expected 1, got {r}");
    }
}

/// DEFECT 4 (lower confidence, might be seen as a missing feature): a range pattern of a signed
/// type cannot go from a negative number to a non-negative number unless both ends carry a type
/// suffix: `-5..=5`, `-5..=0`, `-5..0`, `-128..=127` are all rejected with the parse error
/// "Invalid range expression" (`-5i8..=5i8` works, and so do `-5..=-1` and `0..=5`), because the
/// parser demands that both ends are the same kind of token (SignedNum / UnsignedNum) and an
/// unsuffixed non-negative number is always scanned as UnsignedNum.
/// Correct: the match below is accepted (it covers all of i8) and yields 1 for x = 0 and x = -5,
/// 2 for x = -6 and x = 6.
#[test]
fn signed_range_from_negative_to_non_negative_is_rejected() {
    let src = "pub fn main(x: i8) -> u8 { match x { -5..=5 => 1u8, _ => 2u8 } }";
    for (arg, expected) in [("0", "1"), ("-5", "1"), ("5", "1"), ("-6", "2"), ("6", "2")] {
        let r = eval_u8(src, arg).unwrap_or_else(|e| panic!("{e}"));
        assert!(r == expected || r == format!("{expected}u8"), "x = {arg}: got {r}");
    }
    // the exclusive form of -5..=-1:
    let src = "pub fn main(x: i8) -> u8 { match x { -5..0 => 1u8, _ => 2u8 } }";
    for (arg, expected) in [("-1", "1"), ("-5", "1"), ("0", "2"), ("-6", "2")] {
        let r = eval_u8(src, arg).unwrap_or_else(|e| panic!("{e}"));
        assert!(r == expected || r == format!("{expected}u8"), "x = {arg}: got {r}");
    }
}
