// Property C08: match exhaustiveness verdicts are exact and the first matching arm decides.
//
// One #[test] per distinct defect; every test FAILS on the unchanged code.
// (Copy to tests/hunt.rs and run `cargo test --offline --test hunt`.)

use garble_lang::{check, check::TypeErrorEnum, compile, CompileTimeError, Error};

/// Compiles `prg`, runs it on the single argument `arg` and returns the printed result.
fn run(prg: &str, arg: &str) -> Result<String, String> {
    let compiled = compile(prg).map_err(|e| e.prettify(prg))?;
    let mut eval = compiled.evaluator();
    eval.parse_literal(arg).map_err(|e| format!("{e:?}"))?;
    let out = eval.run().map_err(|e| format!("{e:?}"))?;
    let lit = out.into_literal().map_err(|e| format!("{e:?}"))?;
    Ok(lit.to_string())
}

/// The witnesses of a "patterns are not exhaustive" error, printed; None for any other outcome.
fn missing_cases(prg: &str) -> Option<Vec<String>> {
    match check(prg) {
        Err(Error::CompileTimeError(CompileTimeError::TypeError(errs))) => {
            for e in errs {
                if let TypeErrorEnum::PatternsAreNotExhaustive(witnesses) = &*e.0 {
                    return Some(
                        witnesses
                            .iter()
                            .map(|w| {
                                w.iter()
                                    .map(|p| p.to_string())
                                    .collect::<Vec<_>>()
                                    .join(", ")
                            })
                            .collect(),
                    );
                }
            }
            None
        }
        _ => None,
    }
}

// DEFECT 1: a range pattern whose stored bounds are "inverted" (from > to) with one bound outside
// the scrutinee type is accepted by the type checker (expect_pattern_in_range only tests
// `from < min || to > max`) and the out-of-type bound then wraps around when it is turned into
// wires, so the arm matches values that are not in the range. The most natural way to write such a
// pattern is an exclusive range that ends at the smallest value of the type: `-128i8..-128i8` is
// stored as -128..=-129 (end - 1), -129 wraps to 127 in 8 bits, and the arm matches EVERY i8.
//
// Correct behaviour: the (empty) range matches no value, so the `_` arm decides for every x and the
// result is always 0 (rejecting the pattern as invalid, like Rust does, would be fine as well).
#[test]
fn empty_or_inverted_range_with_bound_outside_the_type_matches_values() {
    // exclusive range ending at i8::MIN: empty, must never match
    let prg = "pub fn main(x: i8) -> u8 { match x { -128i8..-128i8 => 1, _ => 0 } }";
    if compile(prg).is_ok() {
        for x in i8::MIN..=i8::MAX {
            assert_eq!(
                run(prg, &x.to_string()).unwrap(),
                "0",
                "the empty range -128i8..-128i8 matched x = {x}"
            );
        }
    }
    // same mechanism, upper side: 256 wraps to 0 in 8 bits, so `256..=0` matches 0u8
    // (the exhaustiveness check itself assumes that this arm matches nothing)
    let prg = "pub fn main(x: u8) -> u8 { match x { 256..=0 => 1, _ => 0 } }";
    if compile(prg).is_ok() {
        assert_eq!(run(prg, "0").unwrap(), "0", "256..=0 matched 0u8");
    }
    // and `-1..=-200` on i8 (-200 wraps to 56) matches -1..=56
    let prg = "pub fn main(x: i8) -> u8 { match x { -1..=-200 => 1, _ => 0 } }";
    if compile(prg).is_ok() {
        assert_eq!(run(prg, "5").unwrap(), "0", "-1..=-200 matched 5i8");
    }
}

// DEFECT 2: an exhaustive match is rejected as non-exhaustive, and the reported missing case
// (`256u8`) is not a value of the scrutinee type at all. The (accepted, see defect 1) pattern
// `300..=5` contributes the split point 300 beyond u8::MAX; split_unsigned_range then emits the
// one-value constructor 256..=256 for the window [256, 300) because the first `if` in its loop is
// not guarded by the `range[0] >= min && range[1] - 1 <= max` test (same in split_signed_range).
//
// Correct behaviour: `0..=255` covers every u8, so the match is accepted (or the program is
// rejected because of the invalid pattern `300..=5`) - but it must not be reported as
// non-exhaustive with a missing case that denotes no value.
#[test]
fn exhaustive_match_rejected_with_missing_case_outside_the_type() {
    let prg = "pub fn main(x: u8) -> u8 { match x { 0..=255 => 1, 300..=5 => 2 } }";
    let missing = missing_cases(prg);
    assert!(
        missing.is_none(),
        "exhaustive match over u8 rejected as non-exhaustive, missing cases: {missing:?}"
    );
}

// DEFECT 3 (lower confidence, could be seen as a missing feature): a range pattern over a signed
// type cannot cross zero unless both bounds carry a type suffix. `-5..=5` (also `-5..5`,
// `-128..0`, ...) is a parse error "Invalid range expression", because the scanner produces a
// SignedNum token for `-5` and an UnsignedNum token for `5` and parse_pattern only accepts two
// tokens of the same kind (with identical suffixes). `-5i8..=5i8` works, as do `-5` and `5` alone.
//
// Correct behaviour: the match below covers every i8 and is accepted; the first arm is taken for
// exactly -5 <= x <= 5.
#[test]
fn unsuffixed_signed_range_pattern_across_zero() {
    let prg = "pub fn main(x: i8) -> u8 { match x { -5..=5 => 1, _ => 0 } }";
    if let Err(e) = compile(prg) {
        panic!("match with the range pattern -5..=5 is rejected: {}", e.prettify(prg));
    }
    for x in i8::MIN..=i8::MAX {
        let expected = if (-5..=5).contains(&x) { "1" } else { "0" };
        assert_eq!(run(prg, &x.to_string()).unwrap(), expected, "x = {x}");
    }
}
