//! Property C09: literal encoding round-trips, matches the circuit bit layout, is validated.
//! One #[test] per distinct defect; every test FAILS on the unchanged code.
//! (copy to tests/ and run with `cargo test --offline --test hunt`)

use garble_lang::{
    GarbleProgram, compile, compile_with_constants,
    literal::Literal,
    token::UnsignedNumType,
};
use std::collections::HashMap;
use std::panic::{AssertUnwindSafe, catch_unwind};

/// `pub fn main(x: T, u: bool) -> T { x }` (the second parameter avoids the documented
/// "a single array parameter means one party per element" mode).
fn identity(defs: &str, ty: &str) -> GarbleProgram {
    let code = format!("{defs}\npub fn main(x: {ty}, u: bool) -> {ty} {{ x }}");
    compile(&code).unwrap_or_else(|e| panic!("{}", e.prettify(&code)))
}

fn identity_with_n(defs: &str, ty: &str, n: usize) -> GarbleProgram {
    let code = format!(
        "const N: usize = PARTY_0::N;\n{defs}\npub fn main(x: {ty}, u: bool) -> {ty} {{ x }}"
    );
    let consts = HashMap::from([(
        "PARTY_0".to_string(),
        HashMap::from([("N".to_string(), Literal::from(n))]),
    )]);
    compile_with_constants(&code, consts).unwrap_or_else(|e| panic!("{}", e.prettify(&code)))
}

/// Parses `text` as argument 0 and encodes it; `Err(..)` if refused, `Err("PANIC")` on a panic.
fn parse_and_encode(prg: &GarbleProgram, text: &str) -> Result<(Literal, Vec<bool>), String> {
    catch_unwind(AssertUnwindSafe(|| {
        prg.parse_arg(0, text)
            .map(|arg| (arg.as_literal(), arg.as_bits()))
            .map_err(|e| format!("{e:?}"))
    }))
    .unwrap_or_else(|_| Err("PANIC".to_string()))
}

/// Runs the identity program on the given input bits for `x` and returns the printed output.
fn run_identity(prg: &GarbleProgram, x: Vec<bool>) -> String {
    let out = prg.circuit.eval(&[x, vec![true]]);
    prg.parse_output(&out).unwrap().to_string()
}

fn u8s(v: &[u8]) -> Literal {
    Literal::Array(v.iter().map(|x| Literal::from(*x)).collect())
}

/// DEFECT 1: `Literal::parse` stops after the first complete literal and ignores all the tokens
/// that follow. Correct: text with trailing tokens is not a literal and must be refused.
#[test]
fn trailing_tokens_after_a_literal_are_refused() {
    let prg = identity("", "u8");
    for text in ["1 2", "1 garbage", "1, 2", "1 )"] {
        let r = parse_and_encode(&prg, text);
        assert!(r.is_err(), "'{text}' was accepted as the u8 literal {:?}", r.unwrap().0);
    }
    let prg = identity("", "[u8; 3]");
    let r = parse_and_encode(&prg, "[1, 2, 3] [4]");
    assert!(r.is_err(), "'[1, 2, 3] [4]' was accepted as {:?}", r.unwrap().0);
}

/// DEFECT 2: an untyped range `0..3` parsed for a `[u8; 3]` parameter keeps the element type
/// `Unspecified`: `parse_arg` accepts it and `as_bits` emits 3 * 32 = 96 bits for a 24 bit
/// parameter (and it prints as `0unspecified unsigned int..3unspecified unsigned int`).
/// Correct: either refuse it or encode it as the 24 bits of `[0, 1, 2]`.
#[test]
fn untyped_range_encodes_to_the_size_of_the_parameter() {
    let prg = identity("", "[u8; 3]");
    let expected = prg.literal_arg(0, u8s(&[0, 1, 2])).unwrap().as_bits();
    assert_eq!(expected.len(), 24);
    if let Ok((literal, bits)) = parse_and_encode(&prg, "0..3") {
        assert_eq!(bits.len(), 24, "'0..3' as [u8; 3] became {literal:?} = '{literal}'");
        assert_eq!(bits, expected);
    }
}

/// DEFECT 3: `Literal::is_of_type` accepts a `Literal::Range` whose numbers do not fit into the
/// element type; `as_bits` then truncates them: `Range(254, 258, U8)` is accepted for `[u8; 4]`
/// and is encoded as `[254, 255, 0, 1]`. Correct: refuse it (like `NumUnsigned(256, U8)` is).
#[test]
fn programmatic_range_beyond_the_element_type_is_refused() {
    let prg = identity("", "[u8; 4]");
    let r = prg.literal_arg(0, Literal::Range(254, 258, UnsignedNumType::U8));
    if let Ok(arg) = r {
        panic!(
            "Range(254, 258, U8) accepted for [u8; 4], the identity returns {}",
            run_identity(&prg, arg.as_bits())
        );
    }
}

/// DEFECT 4: the same for parsed text: the end of a range takes the type of the start without a
/// range check, so `250u8..260` is accepted for `[u8; 10]` and the identity program returns
/// `[250, .., 255, 0, 1, 2, 3]`. Correct: refuse it (`260u8` itself is a scan error).
#[test]
fn parsed_range_beyond_the_element_type_is_refused() {
    let prg = identity("", "[u8; 10]");
    if let Ok((literal, bits)) = parse_and_encode(&prg, "250u8..260") {
        panic!(
            "'250u8..260' accepted as {literal:?}, the identity returns {}",
            run_identity(&prg, bits)
        );
    }
}

/// DEFECT 5: `GarbleProgram::parse_arg` checks the text against the *unresolved* parameter type,
/// so for a parameter `[u8; N]` (N a const) every array literal is refused with "expected
/// ArrayConst(u8, N), actual Array(u8, 2)"; `Evaluator::parse_literal` and `literal_arg` resolve
/// the type first and accept the same value. Correct: `parse_arg` accepts `[1, 2]` for N = 2.
#[test]
fn parse_arg_accepts_an_array_whose_size_is_a_const() {
    let prg = identity_with_n("", "[u8; N]", 2);
    let expected = prg.literal_arg(0, u8s(&[1, 2])).unwrap().as_bits();
    let mut eval = prg.evaluator();
    eval.parse_literal("[1, 2]").unwrap(); // fine
    let (_, bits) = parse_and_encode(&prg, "[1, 2]").expect("parse_arg refuses a valid value");
    assert_eq!(bits, expected);
}

/// DEFECT 6: a struct (or enum) with a field of type `[u8; N]` can be a parameter and can be
/// decoded from the output bits, but no input API accepts any value of it: `is_of_type` and
/// `Literal::parse` compare the field against the unresolved `ArrayConst` type.
/// Correct: the value printed by the identity program is accepted as its input.
#[test]
fn struct_with_a_const_sized_array_field_can_be_passed() {
    let prg = identity_with_n("struct S { xs: [u8; N] }", "S", 2);
    // 16 bits of the struct -> identity -> decoded output:
    let mut bits = vec![false; 16];
    bits[7] = true;
    bits[14] = true;
    let out = prg.circuit.eval(&[bits.clone(), vec![true]]);
    let v = prg.parse_output(&out).unwrap();
    assert_eq!(v.to_string(), "S {xs: [1, 2]}");
    // ... which none of the input APIs accepts:
    let by_type_test = prg.literal_arg(0, v.clone()).map(|a| a.as_bits());
    let mut eval = prg.evaluator();
    let by_parsing = eval.parse_literal(&v.to_string());
    assert!(
        by_type_test.is_ok() || by_parsing.is_ok(),
        "{v} refused: {:?} / {:?}",
        by_type_test.err(),
        by_parsing.err()
    );
}

/// DEFECT 7: `[7; N]` (array repeat literal with a const as its size) passes the type check of
/// `Literal::parse` when the parameter type is `[u8; N]`, then `into_literal` hits
/// `unreachable!()`. Correct: an error or the literal `[7; 2]`, never a panic.
#[test]
fn array_repeat_literal_with_const_size_does_not_panic() {
    let prg = identity_with_n("", "[u8; N]", 2);
    let r = parse_and_encode(&prg, "[7; N]");
    assert_ne!(r, Err("PANIC".to_string()), "parse_arg(0, \"[7; N]\") panicked");
}

/// DEFECT 8: a struct literal that names a field twice is not refused by `Literal::parse` (only
/// "too few fields" is checked): `S {a: 1, a: 2}` is accepted and `as_bits` panics on the missing
/// field `b`; `S {a: 1, a: 2, b: true}` is accepted and silently encodes `a = 1`.
/// Correct: both are refused with an error.
#[test]
fn struct_literal_with_a_duplicate_field_is_refused() {
    let prg = identity("struct S { a: u8, b: bool }", "S");
    for text in ["S {a: 1, a: 2}", "S {a: 1, a: 2, b: true}"] {
        match parse_and_encode(&prg, text) {
            Err(e) if e != "PANIC" => {}
            Err(_) => panic!("'{text}' is accepted by parse_arg, as_bits panics"),
            Ok((l, bits)) => panic!("'{text}' accepted as {l:?} = {}", run_identity(&prg, bits)),
        }
    }
}

/// DEFECT 9: the struct field shorthand `S {a, b: true}` is accepted by the literal parser as the
/// identifier expression `a`; if the program has a const of that name and type the type check
/// passes and `into_literal` hits `unreachable!()`. Correct: an error (not a literal).
#[test]
fn struct_shorthand_field_in_a_literal_does_not_panic() {
    let prg = identity("const a: u8 = 5u8;\nstruct S { a: u8, b: bool }", "S");
    let r = parse_and_encode(&prg, "S {a, b: true}");
    assert_ne!(r, Err("PANIC".to_string()), "parse_arg(0, \"S {{a, b: true}}\") panicked");
}

/// DEFECT 10: a tuple with one field prints as `(1)`, which parses as the parenthesised number
/// 1 and is refused for the type `(u8)`; only `(1,)` is accepted. Correct: printing a value and
/// parsing it back as its type yields the value.
#[test]
fn one_tuple_round_trips_through_display() {
    let prg = identity("", "(u8)");
    let v = Literal::Tuple(vec![Literal::from(1u8)]);
    let bits = prg.literal_arg(0, v.clone()).unwrap().as_bits();
    let printed = run_identity(&prg, bits);
    assert_eq!(printed, v.to_string());
    let parsed = parse_and_encode(&prg, &printed).map(|(l, _)| l);
    assert_eq!(parsed, Ok(v), "the output '{printed}' of the identity program is not an input");
}

/// DEFECT 11: the empty array prints as `[]`, which the literal parser refuses ("expected
/// expression"); `[u8; 0]` is a legal parameter type. Correct: `[]` parses back as `Array([])`.
#[test]
fn empty_array_round_trips_through_display() {
    let prg = identity("", "[u8; 0]");
    let v = Literal::Array(vec![]);
    let printed = run_identity(&prg, prg.literal_arg(0, v.clone()).unwrap().as_bits());
    assert_eq!(printed, "[]");
    let parsed = parse_and_encode(&prg, &printed).map(|(l, _)| l);
    assert_eq!(parsed, Ok(v), "the output '{printed}' of the identity program is not an input");
}

/// DEFECT 12: the literal parser does not consume the `)` of the unit tuple `()`, so `()` only
/// parses at the top level (where the left-over `)` is ignored, see defect 1); nested in a tuple
/// or an array it derails the parser. Correct: `((), 1)` parses as `Tuple([Tuple([]), 1])`.
#[test]
fn nested_unit_tuple_can_be_parsed() {
    let prg = identity("", "((), u8)");
    let v = Literal::Tuple(vec![Literal::Tuple(vec![]), Literal::from(1u8)]);
    let printed = run_identity(&prg, prg.literal_arg(0, v.clone()).unwrap().as_bits());
    assert_eq!(printed, "((), 1)");
    let parsed = parse_and_encode(&prg, &printed).map(|(l, _)| l);
    assert_eq!(parsed, Ok(v), "the output '{printed}' of the identity program is not an input");
}

/// DEFECT 13: in an array literal whose elements are arrays or tuples, the first element fixes
/// the element type before the expected type is known: `[[1], [-1]]` is typed `[[unsigned; 1]; 2]`
/// from `[1]` and `[-1]` is then refused, although the value is a legal `[[i8; 1]; 2]` and is
/// what Display prints for it. (`[1, -1]` and `[[-1], [1]]` are accepted.)
/// Correct: printing a value and parsing it back as its type yields the value.
#[test]
fn nested_array_with_a_negative_number_after_a_positive_one_round_trips() {
    let prg = identity("", "[[i8; 1]; 2]");
    let v = Literal::Array(vec![
        Literal::Array(vec![Literal::from(1i8)]),
        Literal::Array(vec![Literal::from(-1i8)]),
    ]);
    let printed = run_identity(&prg, prg.literal_arg(0, v.clone()).unwrap().as_bits());
    assert_eq!(printed, "[[1], [-1]]");
    let parsed = parse_and_encode(&prg, &printed).map(|(l, _)| l);
    assert_eq!(parsed, Ok(v), "the output '{printed}' of the identity program is not an input");
}

/// DEFECT 14 (medium confidence): if `main` has a single array parameter the circuit is compiled
/// with one party per array element (documented), but the literal API is not aware of it:
/// `set_literal` / `parse_literal` / `literal_arg` accept the whole array for parameter 0 (as one
/// party with 16 bits, which `run` then refuses) and refuse one element per party.
/// Correct: the identity program over `[u8; 2]` can be evaluated from literals in one of the two
/// ways and returns the value.
#[test]
fn identity_over_a_single_array_parameter_can_be_evaluated_from_literals() {
    let prg = compile("pub fn main(x: [u8; 2]) -> [u8; 2] { x }").unwrap();
    let v = u8s(&[1, 2]);
    // (a) the whole array as the literal of parameter 0
    let mut eval = prg.evaluator();
    let whole = eval
        .set_literal(v.clone())
        .map_err(|e| e.to_string())
        .and_then(|_| eval.run().map_err(|e| e.to_string()))
        .and_then(|o| o.into_literal().map_err(|e| e.to_string()));
    // (b) one element per party
    let mut eval = prg.evaluator();
    let per_party = eval
        .set_literal(Literal::from(1u8))
        .and_then(|_| eval.set_literal(Literal::from(2u8)))
        .map_err(|e| e.to_string())
        .and_then(|_| eval.run().map_err(|e| e.to_string()))
        .and_then(|o| o.into_literal().map_err(|e| e.to_string()));
    assert!(
        whole == Ok(v.clone()) || per_party == Ok(v),
        "whole array: {whole:?}; one element per party: {per_party:?}"
    );
}

/// DEFECT 15 (lower confidence, decoding side): `Literal::from_unwrapped_bits` only checks the
/// number of bits for bool and number types. For arrays, tuples, structs and enums too few bits
/// panic (slice index) instead of `EvalError::OutputTypeMismatch`, and surplus bits are silently
/// ignored. Correct: an error whenever the number of bits is not size(T).
#[test]
fn decoding_a_wrong_number_of_bits_is_an_error() {
    let prg = identity("", "(u8, u8)");
    let ty = &prg.main.ty;
    let decode = |n: usize| {
        catch_unwind(AssertUnwindSafe(|| {
            Literal::from_unwrapped_bits(&prg.program, ty, &vec![false; n], &prg.const_sizes)
                .map_err(|e| e.to_string())
        }))
        .unwrap_or_else(|_| Err("PANIC".to_string()))
    };
    assert!(decode(16).is_ok());
    let long = decode(17);
    let short = decode(15);
    assert!(
        long.is_err() && short.is_err() && short != Err("PANIC".to_string()),
        "17 bits: {long:?}; 15 bits: {short:?}"
    );
}
