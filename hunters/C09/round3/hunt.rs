//! Hunt results for property C09 (literal encoding round-trips, matches the circuit bit layout,
//! is validated). One test per distinct defect, every test FAILS on the unchanged code.
//! Copy to tests/hunt.rs and run `cargo test --offline --test hunt`.

use garble_lang::{
    compile, compile_with_constants,
    literal::{Literal, VariantLiteral},
    token::UnsignedNumType,
    GarbleProgram,
};
use std::collections::HashMap;
use std::panic::{catch_unwind, AssertUnwindSafe};

fn u8l(n: u64) -> Literal {
    Literal::NumUnsigned(n, UnsignedNumType::U8)
}

/// Runs the 2-party identity program `main(x: T, d: bool) -> T { x }` on the bits of the literal
/// and decodes the output.
fn identity(p: &GarbleProgram, bits: Vec<bool>) -> Literal {
    let out = p.circuit.eval(&[bits, vec![false]]);
    p.parse_output(&out).expect("output of the identity program must decode")
}

/// The first 161 bits (the "no panic" header) of a genuine circuit output.
fn no_panic_header() -> Vec<bool> {
    let p = compile("pub fn main(x: bool) -> bool { x }").unwrap();
    let out = p.circuit.eval(&[vec![true]]);
    out[..out.len() - 1].to_vec()
}

// ---------------------------------------------------------------------------------------------
// D1: a 1-tuple value is printed as `(5)`, which is parsed as the parenthesised number 5.
//
// Correct behaviour: the printed form of every value parses back as its type, i.e. either
// `Display` prints `(5,)` (which the parser already accepts) or the parser accepts `(5)` where a
// 1-tuple is expected.
#[test]
fn d1_one_tuple_print_does_not_parse_back() {
    let p = compile("pub fn main(x: (u8), d: bool) -> (u8) { x }").unwrap();
    let v = Literal::Tuple(vec![u8l(5)]);
    let arg = p.literal_arg(0, v.clone()).expect("a 1-tuple literal is of type (u8)");
    let out = identity(&p, arg.as_bits());
    assert_eq!(out, v);
    let printed = out.to_string(); // "(5)"
    let reparsed = p.parse_arg(0, &printed);
    assert!(
        reparsed.is_ok(),
        "printed 1-tuple '{printed}' is refused: {}",
        reparsed.unwrap_err()
    );
    assert_eq!(reparsed.unwrap().as_literal(), v);
}

// ---------------------------------------------------------------------------------------------
// D2: the printed form of an array of tuples / array of arrays of SIGNED numbers is refused as
// soon as the first element contains only non-negative numbers and a later element contains a
// negative one: the element type is inferred from the first element alone (`(unsigned, bool)`) and
// the later elements are checked against it.
//
// Correct behaviour: `[(1, true), (-2, false)]` parses as `[(i8, bool); 2]` and `[[1, 2], [-3, 4]]`
// parses as `[[i8; 2]; 2]` (both are exactly what `Display` prints for these values).
#[test]
fn d2_array_of_collections_with_later_negative_number_does_not_parse_back() {
    use garble_lang::token::SignedNumType::I8;
    let p = compile("pub fn main(x: [(i8, bool); 2], d: bool) -> [(i8, bool); 2] { x }").unwrap();
    let v = Literal::Array(vec![
        Literal::Tuple(vec![Literal::NumSigned(1, I8), Literal::True]),
        Literal::Tuple(vec![Literal::NumSigned(-2, I8), Literal::False]),
    ]);
    let out = identity(&p, p.literal_arg(0, v.clone()).unwrap().as_bits());
    assert_eq!(out, v);
    let printed = out.to_string();
    assert_eq!(printed, "[(1, true), (-2, false)]");
    let reparsed = p.parse_arg(0, &printed);
    assert!(reparsed.is_ok(), "'{printed}' is refused: {}", reparsed.unwrap_err());

    let p = compile("pub fn main(x: [[i8; 2]; 2], d: bool) -> [[i8; 2]; 2] { x }").unwrap();
    let reparsed = p.parse_arg(0, "[[1, 2], [-3, 4]]");
    assert!(reparsed.is_ok(), "'[[1, 2], [-3, 4]]' is refused: {}", reparsed.unwrap_err());
}

// ---------------------------------------------------------------------------------------------
// D3: a struct (or enum) with a field whose array size is a const has NO acceptable literal at
// all: `resolve_const_type` resolves const sizes only in the parameter type itself, not in the
// struct / enum definitions, so `is_of_type` and `Literal::parse` compare `[u8; 3]` with the
// unresolved `[u8; N]`.
//
// Correct behaviour: `S {a: [1, 2, 3]}` is accepted for `struct S { a: [u8; N] }` with N = 3 by
// both `parse_arg` and `literal_arg`, encodes to 24 bits and round-trips.
#[test]
fn d3_const_sized_array_inside_struct_or_enum_has_no_literal() {
    let consts = || {
        let mut party = HashMap::new();
        party.insert("N".to_string(), Literal::NumUnsigned(3, UnsignedNumType::Usize));
        let mut consts = HashMap::new();
        consts.insert("P".to_string(), party);
        consts
    };
    let arr = Literal::Array(vec![u8l(1), u8l(2), u8l(3)]);

    let prg = "const N: usize = P::N; struct S { a: [u8; N] } pub fn main(x: S, d: bool) -> S { x }";
    let p = compile_with_constants(prg, consts()).unwrap();
    let v = Literal::Struct("S".into(), vec![("a".into(), arr.clone())]);
    // the value exists: it is what the circuit outputs for these 24 input bits
    let bits: Vec<bool> = [1u8, 2, 3]
        .iter()
        .flat_map(|n| (0..8).rev().map(move |i| (n >> i) & 1 == 1))
        .collect();
    let out = identity(&p, bits.clone());
    assert_eq!(out, v);
    let by_type_test = p.literal_arg(0, v.clone()).map(|a| a.as_bits());
    let by_parsing = p.parse_arg(0, &out.to_string()).map(|a| a.as_bits());
    let prg = "const N: usize = P::N; enum E { A(bool, [u8; N]), B } pub fn main(x: E, d: bool) -> E { x }";
    let p = compile_with_constants(prg, consts()).unwrap();
    let e = Literal::Enum("E".into(), "A".into(), VariantLiteral::Tuple(vec![Literal::True, arr]));
    let enum_by_type_test = p.literal_arg(0, e).map(|a| a.as_bits().len());
    let enum_by_parsing = p.parse_arg(0, "E::A(true, [1, 2, 3])").map(|a| a.as_bits().len());
    assert!(
        by_type_test.is_ok() && by_parsing.is_ok() && enum_by_type_test.is_ok() && enum_by_parsing.is_ok(),
        "struct literal_arg: {:?}\nstruct parse_arg: {:?}\nenum literal_arg: {:?}\nenum parse_arg: {:?}",
        by_type_test.as_ref().map_err(|e| e.to_string()),
        by_parsing.as_ref().map_err(|e| e.to_string()),
        enum_by_type_test.as_ref().map_err(|e| e.to_string()),
        enum_by_parsing.as_ref().map_err(|e| e.to_string()),
    );
    assert_eq!(by_type_test.unwrap(), bits);
    assert_eq!(by_parsing.unwrap(), bits);
}

// ---------------------------------------------------------------------------------------------
// D4: decoding checks the number of bits only for bool and numbers. For arrays, tuples, structs
// and enums too few bits panic (slice index out of range) and too many bits are silently
// truncated.
//
// Correct behaviour: `Err(EvalError::OutputTypeMismatch { .. })` whenever the number of bits is not
// size(T), as is already done for `bool` and the integer types.
#[test]
fn d4_decoding_composite_types_does_not_check_the_number_of_bits() {
    let p = compile("pub fn main(x: (bool, bool), d: bool) -> (bool, bool) { x }").unwrap();
    let mut too_long = no_panic_header();
    too_long.extend([true, false, true]); // 3 bits for a 2 bit type
    let mut too_short = no_panic_header();
    too_short.extend([true]); // 1 bit for a 2 bit type
    let long = catch_unwind(AssertUnwindSafe(|| p.parse_output(&too_long)));
    let short = catch_unwind(AssertUnwindSafe(|| p.parse_output(&too_short)));
    let long_ok = matches!(long, Ok(Err(_)));
    let short_ok = matches!(short, Ok(Err(_)));
    assert!(
        long_ok && short_ok,
        "3 bits decoded as (bool, bool): {:?}; 1 bit decoded as (bool, bool): {:?}",
        long.map(|r| r.map(|l| l.to_string()).map_err(|e| e.to_string())).map_err(|_| "PANIC"),
        short.map(|r| r.map(|l| l.to_string()).map_err(|e| e.to_string())).map_err(|_| "PANIC"),
    );
}

// ---------------------------------------------------------------------------------------------
// D5: an enum tag that does not denote a variant (tag 3 of a 3-variant enum with a 2 bit tag)
// panics in `Literal::from_unwrapped_bits` (index out of bounds). A party can produce such an
// output simply by supplying these input bits to the identity program.
//
// Correct behaviour: an `Err(..)`, not a panic.
#[test]
fn d5_decoding_invalid_enum_tag_panics() {
    let p = compile("enum E { A, B(bool), C } pub fn main(x: E, d: bool) -> E { x }").unwrap();
    // 2 tag bits + 1 payload bit, tag = 0b11 = 3
    let out = p.circuit.eval(&[vec![true, true, false], vec![false]]);
    let r = catch_unwind(AssertUnwindSafe(|| p.parse_output(&out)));
    assert!(matches!(r, Ok(Err(_))), "expected an error, got {:?}",
        r.map(|r| r.map(|l| l.to_string()).map_err(|e| e.to_string())).map_err(|_| "PANIC"));
}

// ---------------------------------------------------------------------------------------------
// D6: `parse_output` / `Literal::from_result_bits` panic (instead of returning an error) when the
// bits are shorter than the 161 bit panic header, or when the header carries an unknown panic
// reason (e.g. an all-zero header, although its "has panicked" bit is false).
//
// Correct behaviour: `Err(EvalError::OutputTypeMismatch { .. })` (or similar), not a panic.
#[test]
fn d6_parse_output_of_too_few_bits_panics() {
    let p = compile("pub fn main(x: bool) -> bool { x }").unwrap();
    let empty = catch_unwind(AssertUnwindSafe(|| p.parse_output(&[]).map(|l| l.to_string())));
    let one = catch_unwind(AssertUnwindSafe(|| p.parse_output(&[true]).map(|l| l.to_string())));
    let zero_header =
        catch_unwind(AssertUnwindSafe(|| p.parse_output(&[false; 162]).map(|l| l.to_string())));
    assert!(
        empty.is_ok() && one.is_ok() && zero_header.is_ok(),
        "parse_output panicked: empty: {}, 1 bit: {}, all-false 162 bits: {}",
        empty.is_err(),
        one.is_err(),
        zero_header.is_err()
    );
}

// ---------------------------------------------------------------------------------------------
// D7: `TryFrom<EvalOutput>` for the integer types looks only at the NUMBER of output bits, never
// at the return type of the program: the i8 result -1 converts "successfully" to the u8 255, an
// `[bool; 8]` result converts to an i8.
//
// Correct behaviour: `Err(EvalError::OutputTypeMismatch { .. })` when the return type of `main` is
// not the requested type (a silently different value is returned instead).
#[test]
fn d7_try_from_eval_output_ignores_the_output_type() {
    let p = compile("pub fn main(x: i8) -> i8 { x }").unwrap();
    let mut ev = p.evaluator();
    ev.set_i8(-1);
    let out = ev.run().unwrap();
    let as_u8 = u8::try_from(out);
    assert!(as_u8.is_err(), "the i8 output -1 was converted to the u8 {}", as_u8.unwrap());
}

// ---------------------------------------------------------------------------------------------
// D8: `Evaluator::set_u8` & co. are never checked against the parameter type; if the width
// happens to match, the evaluation runs with a silently different value (u8 200 for an i8
// parameter is -56), whereas `set_literal` refuses the very same literal.
//
// Correct behaviour: `run()` (the only place that can report it) fails, e.g. with
// `EvalError::InvalidLiteralType`, as `set_literal(Literal::NumUnsigned(200, U8))` does.
#[test]
fn d8_set_int_is_not_checked_against_the_parameter_type() {
    let p = compile("pub fn main(x: i8) -> i8 { x }").unwrap();
    let mut ev = p.evaluator();
    assert!(ev.set_literal(u8l(200)).is_err());
    let mut ev = p.evaluator();
    ev.set_u8(200);
    let out = ev.run().and_then(|o| o.into_literal());
    assert!(out.is_err(), "u8 200 was accepted for an i8 parameter and became {}", out.unwrap());
}

// ---------------------------------------------------------------------------------------------
// D9: the (only) value of the legal type `[u8; 0]` is printed as `[]`, which the literal parser
// refuses (it insists on a first element).
//
// Correct behaviour: `[]` parses as `[u8; 0]` (and `([], true)` as `([u8; 0], bool)`).
#[test]
fn d9_empty_array_print_does_not_parse_back() {
    let p = compile("pub fn main(x: [u8; 0], d: bool) -> [u8; 0] { x }").unwrap();
    let v = Literal::Array(vec![]);
    let arg = p.literal_arg(0, v.clone()).expect("the empty array is of type [u8; 0]");
    let out = identity(&p, arg.as_bits());
    assert_eq!(out, v);
    let printed = out.to_string();
    let reparsed = p.parse_arg(0, &printed);
    assert!(reparsed.is_ok(), "'{printed}' is refused: {}", reparsed.unwrap_err());
}

// ---------------------------------------------------------------------------------------------
// D10: if `main` has a single array parameter, every array element is the input of a separate
// party. `literal_arg(0, ..)` / `parse_arg(0, ..)` / `Evaluator::set_literal` nevertheless expect
// the WHOLE array for "argument 0" (24 bits for an input that has 8 bits), refuse the literal of
// a single element, and know no argument 1 and 2; `set_literal` accepts the array and `run()`
// then fails.
//
// Correct behaviour: the bits of an accepted argument have the size of the corresponding circuit
// input (equivalently: the literal API works per party for such programs), and the identity
// program can be run with `set_literal`.
#[test]
fn d10_single_array_parameter_literal_api_does_not_match_the_circuit_inputs() {
    let p = compile("pub fn main(x: [u8; 3]) -> [u8; 3] { x }").unwrap();
    let input_lengths: Vec<usize> = p.circuit.input_lengths().collect();
    assert_eq!(input_lengths, vec![8, 8, 8]);
    for (i, expected_len) in input_lengths.iter().enumerate() {
        let per_party = p.parse_arg(i, "7").map(|a| a.as_bits().len());
        let whole = p.parse_arg(i, "[7, 8, 9]").map(|a| a.as_bits().len());
        assert!(
            per_party.as_ref().ok() == Some(expected_len) || whole.as_ref().ok() == Some(expected_len),
            "input {i} of the circuit has {expected_len} bits, but parse_arg({i}, \"7\") = {:?} and \
             parse_arg({i}, \"[7, 8, 9]\") = {:?}",
            per_party.map_err(|e| e.to_string()),
            whole.map_err(|e| e.to_string())
        );
    }
}

// ---------------------------------------------------------------------------------------------
// D11: `Literal::Range(253, 256, U8)` is accepted by `literal_arg` for `[u8; 3]` (its last element
// is 255) and encodes correctly, but its printed form `253u8..256u8` is refused by the scanner
// (256 is not a u8), while the unsuffixed `253..256` is accepted.
//
// Correct behaviour: every accepted literal prints to a text that parses back to it.
#[test]
fn d11_accepted_range_up_to_type_max_does_not_parse_back() {
    let p = compile("pub fn main(x: [u8; 3], d: bool) -> [u8; 3] { x }").unwrap();
    let range = Literal::Range(253, 256, UnsignedNumType::U8);
    let arg = p.literal_arg(0, range.clone()).expect("253..256 has the u8 elements 253, 254, 255");
    assert_eq!(identity(&p, arg.as_bits()).to_string(), "[253, 254, 255]");
    assert!(p.parse_arg(0, "253..256").is_ok());
    let printed = range.to_string();
    let reparsed = p.parse_arg(0, &printed);
    assert!(reparsed.is_ok(), "'{printed}' is refused: {}", reparsed.unwrap_err());
}

// ---------------------------------------------------------------------------------------------
// D12: a literal text with (a few hundred, in debug builds ~200) nested parentheses overflows the
// stack of the recursive literal parser and ABORTS the process. The parse runs in a child process
// here (the ignored helper test below), because a stack overflow cannot be caught.
//
// Correct behaviour: the text is either accepted (it denotes 5) or refused with an error.
#[test]
fn d12_deeply_nested_literal_aborts_the_process() {
    let exe = std::env::current_exe().unwrap();
    let status = std::process::Command::new(exe)
        .args(["--ignored", "--exact", "d12_child_parses_deeply_nested_literal"])
        .stdout(std::process::Stdio::null())
        .stderr(std::process::Stdio::null())
        .status()
        .unwrap();
    assert!(status.success(), "parsing 5 inside 5000 parentheses killed the process: {status}");
}

#[test]
#[ignore]
fn d12_child_parses_deeply_nested_literal() {
    let p = compile("pub fn main(x: u8) -> u8 { x }").unwrap();
    let depth = 5000;
    let text = format!("{}5{}", "(".repeat(depth), ")".repeat(depth));
    let _ = p.parse_arg(0, &text); // Ok or Err are both fine
}
