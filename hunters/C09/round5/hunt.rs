//! Property C09: literal encoding round-trips, matches the circuit bit layout, is validated.
//!
//! One test per distinct defect, each failing on the unchanged code. See notes.md for details and
//! for the confidence of each finding.

use garble_lang::{
    compile,
    literal::Literal,
    token::UnsignedNumType,
};
use std::panic::{AssertUnwindSafe, catch_unwind};

/// D1 (literal.rs, `Display for Literal::Range` / scan.rs): a range whose last element is the max
/// value of the element type (`253..256` for `[u8; 3]`) is a valid value ([253, 254, 255]) and is
/// accepted both by `parse_arg` and by `literal_arg`, but it is printed as `253u8..256u8`, which is
/// not even scannable (`256u8` is not a u8), so printing the accepted argument and parsing it back
/// fails.
///
/// Correct behaviour: the printed form of every accepted literal parses back to the same literal /
/// the same bits (e.g. print `253u8..256` or `[253, 254, 255]`).
#[test]
fn c09_range_ending_at_type_max_prints_text_that_cannot_be_parsed() {
    let prg = compile("pub fn main(x: [u8; 3], d: bool) -> [u8; 3] { x }").unwrap();
    // accepted by parsing:
    let parsed = prg.parse_arg(0, "253..256").unwrap();
    assert_eq!(
        parsed.as_literal(),
        Literal::Range(253, 256, UnsignedNumType::U8)
    );
    // accepted by type test, encodes [253, 254, 255]:
    let arg = prg
        .literal_arg(0, Literal::Range(253, 256, UnsignedNumType::U8))
        .unwrap();
    let bits = arg.as_bits();
    assert_eq!(bits.len(), 24);
    let printed = arg.to_string();
    let reparsed = prg.parse_arg(0, &printed);
    assert!(
        reparsed.is_ok(),
        "accepted literal prints as '{printed}', which is refused: {:?}",
        reparsed.err()
    );
    assert_eq!(reparsed.unwrap().as_bits(), bits);
}

/// D2 (check.rs `constrain_type` for typed ranges vs literal.rs `is_of_type` / `Display`): for a
/// signed array parameter the type test accepts `Literal::Range(0, 3, U8)` as a `[i8; 3]` (recent
/// change), and `parse_arg(0, "0..3")` produces exactly that literal. But the text of that very
/// literal, `0u8..3u8`, is refused by `parse_arg` / `parse_literal`: parsing and type test disagree
/// about the same literal and the value does not survive print + parse.
///
/// Correct behaviour: `parse_arg(0, lit.to_string())` accepts whatever `literal_arg(0, lit)`
/// accepts (and yields the same bits), or neither accepts it.
#[test]
fn c09_range_for_signed_array_type_test_and_parser_disagree() {
    let prg = compile("pub fn main(x: [i8; 3], d: bool) -> [i8; 3] { x }").unwrap();
    let lit = Literal::Range(0, 3, UnsignedNumType::U8);
    // the untyped spelling is parsed into exactly this literal:
    assert_eq!(prg.parse_arg(0, "0..3").unwrap().as_literal(), lit);
    // the type test accepts it:
    let arg = prg.literal_arg(0, lit.clone()).unwrap();
    let bits = arg.as_bits();
    assert_eq!(bits.len(), 24);
    // but its own text is refused:
    let printed = lit.to_string();
    assert_eq!(printed, "0u8..3u8");
    let reparsed = prg.parse_arg(0, &printed);
    assert!(
        reparsed.is_ok(),
        "literal_arg accepts {lit:?}, parse_arg refuses its text '{printed}': {:?}",
        reparsed.err()
    );
    assert_eq!(reparsed.unwrap().as_bits(), bits);
    let mut eval = prg.evaluator();
    assert!(eval.parse_literal(&printed).is_ok());
}

/// D3 (lib.rs `literal_arg` / `parse_arg`, eval.rs `set_literal` / `parse_literal` vs compile.rs
/// `single_array_as_multiple_parties`): for a program whose only parameter is an array the circuit
/// has one input party per element (documented feature), but the whole literal API still works on
/// the *parameter*: `parse_arg(0, "[1, 2, 3]")` is accepted and encodes to 24 bits, while input 0
/// of the circuit has 8 bits; the elements themselves cannot be given (`parse_arg(0, "1")` is a
/// type error, `parse_arg(1, ..)` is `InvalidArgIndex`), and `Evaluator::set_literal` /
/// `parse_literal` can never produce a runnable evaluator (only `set_u8` etc. work, which do not
/// exist for struct / enum / tuple elements).
///
/// Correct behaviour: an argument accepted for input `i` encodes to exactly the number of bits that
/// input `i` of the circuit has, and the identity program can be run through the literal API.
#[test]
fn c09_single_array_parameter_literal_api_does_not_match_circuit_inputs() {
    let prg = compile("pub fn main(x: [u8; 3]) -> [u8; 3] { x }").unwrap();
    let input_lengths: Vec<usize> = prg.circuit.input_lengths().collect();
    assert_eq!(input_lengths, vec![8, 8, 8]);

    // Whatever is accepted for index i must have the size of circuit input i:
    for (i, text) in [(0, "[1, 2, 3]"), (0, "1"), (1, "2"), (2, "3")] {
        if let Ok(arg) = prg.parse_arg(i, text) {
            assert_eq!(
                arg.as_bits().len(),
                input_lengths[i],
                "parse_arg({i}, {text:?}) is accepted but does not fit input {i} of the circuit"
            );
        }
    }

    // And there must be a way to run the identity program through the literal API of the evaluator,
    // either with the whole array or with one literal per party:
    let whole = {
        let mut eval = prg.evaluator();
        eval.parse_literal("[1, 2, 3]")
            .and_then(|_| eval.run())
            .and_then(|out| out.into_literal())
            .map(|l| l.to_string())
    };
    let per_party = {
        let mut eval = prg.evaluator();
        eval.parse_literal("1")
            .and_then(|_| eval.parse_literal("2"))
            .and_then(|_| eval.parse_literal("3"))
            .and_then(|_| eval.run())
            .and_then(|out| out.into_literal())
            .map(|l| l.to_string())
    };
    assert!(
        whole.as_deref().ok() == Some("[1, 2, 3]") || per_party.as_deref().ok() == Some("[1, 2, 3]"),
        "whole array: {whole:?}, one literal per party: {per_party:?}"
    );
}

/// D4 (eval.rs `EvalOutput::into_unsigned` / `into_signed`, `TryFrom<EvalOutput> for bool`): the
/// typed conversions of the output only compare the *number of bits* with the requested type, the
/// actual return type of `main` is ignored. An `i8` result of -1 is silently decoded as the `u8`
/// 255 (and an 8-tuple of bools as a u8, a `usize` as `i32`, a one-bit enum as `bool`, ...).
///
/// Correct behaviour: `EvalError::OutputTypeMismatch` (the variant exists for this purpose and the
/// output knows `main_fn.ty`), not a silently different value.
#[test]
fn c09_try_from_eval_output_decodes_a_value_of_a_different_type() {
    let prg = compile("pub fn main(x: i8) -> i8 { x }").unwrap();
    let mut eval = prg.evaluator();
    eval.set_i8(-1);
    let output = eval.run().unwrap();
    assert_eq!(i8::try_from(output.clone()).unwrap(), -1);
    let as_u8 = u8::try_from(output);
    assert!(
        as_u8.is_err(),
        "the i8 result -1 was decoded as the u8 {as_u8:?}"
    );
}

/// D5 (eval.rs `Evaluator::set_usize`): Garble's `usize` has 32 bits (`USIZE_BITS`), the literal
/// paths refuse 2^32 (`parse_arg(0, "4294967296")` and `NumUnsigned(1 << 32, Usize)` are errors),
/// but `set_usize` takes a host `usize` and silently keeps the low 32 bits: the identity program
/// returns 0 for the input 4294967296.
///
/// Correct behaviour: an out-of-range number is refused (the setter would have to return a
/// `Result` like `set_literal`), it must not be truncated to a different value.
#[cfg(target_pointer_width = "64")]
#[test]
fn c09_set_usize_truncates_out_of_range_number() {
    let prg = compile("pub fn main(x: usize) -> usize { x }").unwrap();
    assert!(prg.parse_arg(0, "4294967296").is_err());
    let result = catch_unwind(AssertUnwindSafe(|| {
        let mut eval = prg.evaluator();
        eval.set_usize(1usize << 32);
        eval.run().and_then(usize::try_from)
    }));
    if let Ok(Ok(n)) = result {
        assert_eq!(
            n,
            1usize << 32,
            "set_usize(4294967296) was accepted and the identity program returned {n}"
        );
    }
}

/// D6 (literal.rs `from_unwrapped_bits`, arms for arrays / tuples / structs / enums): the number
/// of bits is only validated for `bool` and the number types (`OutputTypeMismatch`). For compound
/// types too few bits are an out-of-range slice panic and surplus bits are silently ignored.
///
/// Correct behaviour: `Err(EvalError::OutputTypeMismatch { .. })` whenever `bits.len()` is not the
/// size of the type, as for the primitive types.
#[test]
fn c09_from_unwrapped_bits_does_not_validate_length_of_compound_types() {
    let prg = compile("pub fn main(x: (u8, bool), d: bool) -> (u8, bool) { x }").unwrap();
    let ty = &prg.main.ty;
    // exact size is fine:
    let ok = Literal::from_unwrapped_bits(&prg.program, ty, &[true; 9], &prg.const_sizes);
    assert_eq!(ok.unwrap().to_string(), "(255, true)");
    // surplus bits must be refused:
    let too_many = Literal::from_unwrapped_bits(&prg.program, ty, &[true; 10], &prg.const_sizes);
    assert!(
        too_many.is_err(),
        "10 bits were decoded as the 9-bit value {too_many:?}"
    );
    // missing bits must be refused with an error, not with a panic:
    let too_few = catch_unwind(AssertUnwindSafe(|| {
        Literal::from_unwrapped_bits(&prg.program, ty, &[true; 8], &prg.const_sizes)
    }));
    assert!(matches!(too_few, Ok(Err(_))), "8 bits for a 9-bit type: panic");
}

/// D7 (literal.rs `from_unwrapped_bits`, `enum_def.variants[tag_number]`): an enum with 3 variants
/// has a 2-bit tag, the tag value 3 does not denote a variant. Such bits reach `parse_output` when
/// a party feeds raw bits into a program that passes the enum through; decoding them panics with
/// an index out of bounds.
///
/// Correct behaviour: an `EvalError`, not a panic.
#[test]
fn c09_from_unwrapped_bits_panics_on_invalid_enum_tag() {
    let code = "enum E { A, B, C }\npub fn main(x: E, d: bool) -> E { x }";
    let prg = compile(code).unwrap();
    assert_eq!(prg.circuit.input_lengths().next(), Some(2));
    let output = prg.circuit.eval(&[vec![true, true], vec![true]]);
    let decoded = catch_unwind(AssertUnwindSafe(|| prg.parse_output(&output)));
    assert!(
        matches!(decoded, Ok(Err(_))),
        "decoding the tag 3 of a 3-variant enum: {}",
        match &decoded {
            Ok(Ok(l)) => format!("Ok({l})"),
            Ok(Err(e)) => format!("Err({e})"),
            Err(_) => "panic".to_string(),
        }
    );
}

/// D8 (parse.rs `parse_literal` / `parse_literal_recusively`): literal parsing recurses once per
/// nesting level without any limit and with very large stack frames, so a literal text with nested
/// parentheses (`((((...1...))))`; about 200 levels in a debug build, about 1600 levels in a release
/// build, i.e. a text of a few kB) overflows the stack of a default 2 MiB thread and aborts the whole
/// process (not even a catchable panic) instead of being refused with an error. (`(1)` and `((1))`
/// are accepted spellings of `1`, depth 100 is accepted.)
///
/// The overflow is provoked in a child process (this test binary re-executed), because it cannot
/// be caught.
///
/// Correct behaviour: `Err(EvalError::LiteralParseError(..))` (or `Ok`), never a process abort.
#[test]
fn c09_deeply_nested_literal_text_aborts_the_process() {
    const CHILD: &str = "HUNT_C09_DEEP_CHILD";
    let prg = compile("pub fn main(x: u8) -> u8 { x }").unwrap();
    if std::env::var(CHILD).is_ok() {
        // child: runs in a thread with the default stack size of spawned threads (2 MiB)
        let handle = std::thread::Builder::new()
            .stack_size(2 * 1024 * 1024)
            .spawn(move || {
                let depth = 2000;
                let text = format!("{}1{}", "(".repeat(depth), ")".repeat(depth));
                let _ = prg.parse_arg(0, &text);
            })
            .unwrap();
        handle.join().unwrap();
        return;
    }
    let exe = std::env::current_exe().unwrap();
    let status = std::process::Command::new(exe)
        .args([
            "c09_deeply_nested_literal_text_aborts_the_process",
            "--exact",
            "--test-threads=1",
        ])
        .env(CHILD, "1")
        .stdout(std::process::Stdio::null())
        .stderr(std::process::Stdio::null())
        .status()
        .unwrap();
    assert!(
        status.success(),
        "parsing a literal with 2000 nested parentheses killed the process: {status}"
    );
}
