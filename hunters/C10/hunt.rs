// Property C10 (register-based circuit is equivalent to the SSA circuit and safe to execute).
//
// No defect found: on the unchanged code, no valid SSA circuit was found whose conversion violates
// any clause of the property. There is therefore no failing #[test] in this file.
//
// - sweeps.rs   : the (passing) exhaustive / randomised / compiler-output sweeps that were run;
//                 copy to tests/ and run `cargo test --offline --release --test sweeps`.
// - adjacent.rs : four FAILING tests for observations that are outside the quantifier of C10
//                 (invalid SSA produced by the compiler, hand-written register circuits);
//                 see notes.md.
