// C10 hunt (round 7): NO defect found. There is therefore no failing #[test] in this file.
// The tests below are the sweeps that were run (all PASS on the unchanged code, release and debug);
// they are kept as evidence of what was checked. See notes.md.

use garble_lang::circuit::{Circuit as Ssa, Gate};
use garble_lang::circuit_type::CircuitType;
use garble_lang::register_circuit::{And, Circuit as RegC, Input, Inst, Not, Op, Reg, Xor};

struct Rng(u64);
impl Rng {
    fn next(&mut self) -> u64 {
        let mut x = self.0;
        x ^= x << 13;
        x ^= x >> 7;
        x ^= x << 17;
        self.0 = x;
        x
    }
    fn below(&mut self, n: usize) -> usize {
        (self.next() % (n as u64)) as usize
    }
}

fn ref_eval_ssa(c: &Ssa, inputs: &[Vec<bool>]) -> Vec<bool> {
    let mut w: Vec<bool> = inputs.iter().flatten().copied().collect();
    for g in &c.gates {
        let v = match g {
            Gate::Xor(a, b) => w[*a] ^ w[*b],
            Gate::And(a, b) => w[*a] & w[*b],
            Gate::Not(a) => !w[*a],
        };
        w.push(v);
    }
    c.output_gates.iter().map(|o| w[*o]).collect()
}

/// strict evaluation of the register circuit: errors on uninitialised reads / oob
fn strict_eval_reg(c: &RegC, inputs: &[Vec<bool>]) -> Result<Vec<bool>, String> {
    let mut regs: Vec<Option<bool>> = vec![None; c.max_reg_count];
    let get = |regs: &Vec<Option<bool>>, r: Reg, i: usize| -> Result<bool, String> {
        regs.get(r.0 as usize)
            .ok_or_else(|| format!("inst {i}: reg {r:?} out of range"))?
            .ok_or_else(|| format!("inst {i}: reg {r:?} read before written"))
    };
    for (i, inst) in c.insts.iter().enumerate() {
        let v = match inst.op {
            Op::Xor(Xor(a, b)) => get(&regs, a, i)? ^ get(&regs, b, i)?,
            Op::And(And(a, b)) => get(&regs, a, i)? & get(&regs, b, i)?,
            Op::Not(Not(a)) => !get(&regs, a, i)?,
            Op::Input(Input { party, input }) => *inputs
                .get(party as usize)
                .and_then(|p| p.get(input as usize))
                .ok_or_else(|| format!("inst {i}: bad input"))?,
        };
        if inst.out.0 as usize >= regs.len() {
            return Err(format!("inst {i}: out reg oob"));
        }
        regs[inst.out.0 as usize] = Some(v);
    }
    c.output_regs
        .iter()
        .map(|r| get(&regs, *r, usize::MAX))
        .collect()
}

fn check_structure(ssa: &Ssa, reg: &RegC) -> Result<(), String> {
    reg.validate().map_err(|e| format!("validate: {e:?}"))?;
    if reg.input_regs != ssa.input_gates {
        return Err("input_regs differ".into());
    }
    // inputs loaded in order
    let mut k = 0;
    for (p, n) in ssa.input_gates.iter().enumerate() {
        for i in 0..*n {
            let expect = Inst {
                out: Reg(k as u32),
                op: Op::Input(Input {
                    party: p as u32,
                    input: i as u32,
                }),
            };
            if reg.insts.get(k) != Some(&expect) {
                return Err(format!("input inst {k} is {:?}", reg.insts.get(k)));
            }
            k += 1;
        }
    }
    for inst in &reg.insts[k..] {
        if matches!(inst.op, Op::Input(_)) {
            return Err("late input".into());
        }
    }
    if reg.insts.len() != ssa.wires_len() {
        return Err("inst count".into());
    }
    if reg.max_reg_count > ssa.wires_len() {
        return Err(format!(
            "max_reg_count {} > wires {}",
            reg.max_reg_count,
            ssa.wires_len()
        ));
    }
    // register count suffices: max used reg < max_reg_count
    let mut maxr = 0u32;
    for inst in &reg.insts {
        maxr = maxr.max(inst.out.0);
        match inst.op {
            Op::Xor(Xor(a, b)) | Op::And(And(a, b)) => maxr = maxr.max(a.0).max(b.0),
            Op::Not(Not(a)) => maxr = maxr.max(a.0),
            _ => {}
        }
    }
    for o in &reg.output_regs {
        maxr = maxr.max(o.0);
    }
    if (maxr as usize) >= reg.max_reg_count {
        return Err("max_reg_count too small".into());
    }
    if reg.output_regs.len() != ssa.output_gates.len() {
        return Err("output count".into());
    }
    if reg.and_ops != ssa.and_gates() {
        return Err(format!("and_ops {} vs {}", reg.and_ops, ssa.and_gates()));
    }
    let actual_ands = reg
        .insts
        .iter()
        .filter(|i| matches!(i.op, Op::And(_)))
        .count();
    if actual_ands != reg.and_ops {
        return Err("and_ops vs insts".into());
    }
    let ct = CircuitType::Register(reg.clone());
    let cs = CircuitType::Ssa(ssa.clone());
    if ct.ands() != cs.ands() || ct.ops() != cs.ops() || ct.parties() != cs.parties() {
        return Err("CircuitType stats differ".into());
    }
    if ct.input_lengths().collect::<Vec<_>>() != cs.input_lengths().collect::<Vec<_>>() {
        return Err("input_lengths differ".into());
    }
    Ok(())
}

fn check_all(ssa: &Ssa, rng: Option<&mut Rng>) -> Result<(), String> {
    assert_eq!(ssa.validate(), Ok(()), "generator produced invalid ssa");
    let reg: RegC = ssa.into();
    let reg2: RegC = ssa.clone().into();
    if reg != reg2 {
        return Err("nondeterministic / from variants differ".into());
    }
    let mut c3 = CircuitType::Ssa(ssa.clone());
    c3.to_register();
    if c3.unwrap_register_ref() != &reg {
        return Err("to_register differs".into());
    }
    check_structure(ssa, &reg)?;
    let total: usize = ssa.input_gates.iter().sum();
    let assignments: Vec<u64> = if total <= 10 {
        (0..(1u64 << total)).collect()
    } else {
        let rng = rng.expect("rng needed");
        (0..64).map(|_| rng.next()).chain([0, u64::MAX]).collect()
    };
    for a in assignments {
        let mut inputs = vec![];
        let mut k = 0;
        for n in &ssa.input_gates {
            let mut v = vec![];
            for _ in 0..*n {
                v.push((a >> (k % 64)) & 1 == 1);
                k += 1;
            }
            inputs.push(v);
        }
        let expected = ref_eval_ssa(ssa, &inputs);
        let e2 = ssa.eval(&inputs);
        if expected != e2 {
            return Err("ssa eval differs from reference".into());
        }
        let strict = strict_eval_reg(&reg, &inputs)?;
        if strict != expected {
            return Err(format!("strict reg eval differs on {inputs:?}"));
        }
        let r = reg.eval(&inputs);
        if r != expected {
            return Err(format!("reg eval differs on {inputs:?}"));
        }
    }
    Ok(())
}

fn random_ssa(rng: &mut Rng, max_inputs: usize, max_gates: usize) -> Ssa {
    let parties = 1 + rng.below(4);
    let mut input_gates = vec![0; parties];
    let total = 1 + rng.below(max_inputs);
    for _ in 0..total {
        let p = rng.below(parties);
        input_gates[p] += 1;
    }
    let ngates = rng.below(max_gates + 1);
    let mut gates = vec![];
    let style = rng.below(4);
    for g in 0..ngates {
        let i = total + g;
        let pick = |rng: &mut Rng| -> usize {
            match style {
                0 => rng.below(i),
                1 => {
                    // recent
                    let w = 1 + rng.below(4.min(i));
                    i - w
                }
                2 => {
                    if rng.below(3) == 0 {
                        rng.below(i)
                    } else {
                        i - 1 - rng.below(2.min(i))
                    }
                }
                _ => {
                    if rng.below(2) == 0 {
                        rng.below(total.min(i))
                    } else {
                        rng.below(i)
                    }
                }
            }
        };
        let a = pick(rng);
        let b = if rng.below(5) == 0 { a } else { pick(rng) };
        gates.push(match rng.below(3) {
            0 => Gate::Xor(a, b),
            1 => Gate::And(a, b),
            _ => Gate::Not(a),
        });
    }
    let wires = total + ngates;
    let nout = 1 + rng.below(6);
    let mut output_gates = vec![];
    for _ in 0..nout {
        let o = match rng.below(4) {
            0 => rng.below(total),
            1 => wires - 1,
            2 if !output_gates.is_empty() => output_gates[rng.below(output_gates.len())],
            _ => rng.below(wires),
        };
        output_gates.push(o);
    }
    Ssa {
        input_gates,
        gates,
        output_gates,
    }
}

#[test]
fn random_circuits() {
    let mut rng = Rng(0x9E3779B97F4A7C15);
    for iter in 0..200_000 {
        let (mi, mg) = match iter % 4 {
            0 => (3, 6),
            1 => (6, 20),
            2 => (10, 60),
            _ => (20, 200),
        };
        let ssa = random_ssa(&mut rng, mi, mg);
        if let Err(e) = check_all(&ssa, Some(&mut rng)) {
            panic!("iter {iter}: {e}\nssa: {ssa:?}\nreg: {:?}", RegC::from(&ssa));
        }
    }
}

#[test]
fn exhaustive_small() {
    // all circuits with `total` inputs (all party splits into <= 3 parties incl. zero-size parties),
    // up to 3 gates, all output lists of length 1..=2
    let mut count = 0u64;
    for total in 1..=2usize {
        let splits: Vec<Vec<usize>> = match total {
            1 => vec![vec![1], vec![0, 1], vec![1, 0], vec![0, 1, 0]],
            _ => vec![vec![2], vec![1, 1], vec![0, 2], vec![2, 0], vec![1, 0, 1]],
        };
        for ngates in 0..=3usize {
            // enumerate gate lists
            let mut lists: Vec<Vec<Gate>> = vec![vec![]];
            for g in 0..ngates {
                let i = total + g;
                let mut next = vec![];
                for l in &lists {
                    for a in 0..i {
                        let mut l2 = l.clone();
                        l2.push(Gate::Not(a));
                        next.push(l2);
                        for b in 0..i {
                            let mut l2 = l.clone();
                            l2.push(Gate::Xor(a, b));
                            next.push(l2);
                            let mut l2 = l.clone();
                            l2.push(Gate::And(a, b));
                            next.push(l2);
                        }
                    }
                }
                lists = next;
            }
            let wires = total + ngates;
            for gates in &lists {
                let mut outs: Vec<Vec<usize>> = vec![];
                for o in 0..wires {
                    outs.push(vec![o]);
                    for o2 in 0..wires {
                        outs.push(vec![o, o2]);
                    }
                }
                for output_gates in outs {
                    for (si, input_gates) in splits.iter().enumerate() {
                        if si > 0 && ngates == 3 && count % 7 != 0 {
                            count += 1;
                            continue;
                        }
                        let ssa = Ssa {
                            input_gates: input_gates.clone(),
                            gates: gates.clone(),
                            output_gates: output_gates.clone(),
                        };
                        if let Err(e) = check_all(&ssa, None) {
                            panic!("{e}\nssa: {ssa:?}\nreg: {:?}", RegC::from(&ssa));
                        }
                        count += 1;
                    }
                }
            }
        }
    }
    println!("checked {count}");
}

fn check_program(src: &str) {
    use garble_lang::{CircuitKind, CompileOptions, compile, compile_with_options};
    let ssa_res = std::panic::catch_unwind(|| compile(src));
    let reg_res = std::panic::catch_unwind(|| {
        compile_with_options(
            src,
            CompileOptions {
                circuit_kind: CircuitKind::Register,
                ..Default::default()
            },
        )
    });
    match (&ssa_res, &reg_res) {
        (Ok(Ok(s)), Ok(Ok(r))) => {
            let ssa = s.circuit.unwrap_ssa_ref();
            println!(
                "{src}\n  -> inputs {:?} gates {} outputs {} valid {:?}",
                ssa.input_gates,
                ssa.gates.len(),
                ssa.output_gates.len(),
                ssa.validate()
            );
            assert_eq!(ssa.validate(), Ok(()), "compiler output invalid for {src}");
            let mut rng = Rng(12345);
            if let Err(e) = check_all(ssa, Some(&mut rng)) {
                panic!("{src}: {e}");
            }
            assert_eq!(r.circuit.unwrap_register_ref(), &RegC::from(ssa));
        }
        (Ok(Err(_)), Ok(Err(_))) => {
            println!("{src}\n  -> compile error in both");
        }
        (a, b) => panic!(
            "{src}: ssa compile: {:?}, reg compile: {:?}",
            a.as_ref().map(|r| r.as_ref().map(|_| ()).map_err(|e| format!("{e:?}"))).map_err(|_| "PANIC"),
            b.as_ref().map(|r| r.as_ref().map(|_| ()).map_err(|e| format!("{e:?}"))).map_err(|_| "PANIC")
        ),
    }
}

#[test]
fn compiler_outputs() {
    let progs = [
        "pub fn main(x: bool) -> bool { x }",
        "pub fn main(x: bool) -> bool { true }",
        "pub fn main(x: bool) -> (bool, bool, bool) { (x, x, !x) }",
        "pub fn main(x: bool, y: bool) -> bool { x }",
        "pub fn main(x: u8, y: u8) -> u8 { x / y }",
        "pub fn main(x: i8, y: i8) -> i8 { x % y }",
        "pub fn main(x: [u8; 0]) -> bool { true }",
        "pub fn main(x: [u8; 0], y: bool) -> bool { y }",
        "pub fn main(y: bool, x: [u8; 0]) -> bool { y }",
        "pub fn main(x: ()) -> bool { true }",
        "pub fn main(x: (), y: u8) -> u8 { y + 1 }",
        "pub fn main(x: ((), ()), y: ()) -> () { y }",
        "pub fn main(x: bool) -> () { () }",
        "pub fn main(x: bool) -> [bool; 0] { [] }",
        "pub fn main(x: [bool; 3]) -> [bool; 6] { [x[0], x[0], x[2], x[2], x[1], x[0]] }",
        "pub fn main(x: [u8; 4], i: usize) -> u8 { x[i] }",
        "struct E {} pub fn main(x: E) -> bool { true }",
        "struct E {} pub fn main(x: E, y: bool) -> E { x }",
        "pub fn main(x: u8) -> u8 { let mut a = 0u8; for i in 0..4 { a = a + x; } a }",
        "pub fn main(x: u64, y: u64) -> u64 { x * y }",
        "pub fn main(a: bool, b: bool, c: bool, d: bool, e: bool) -> bool { (a & b) ^ (c & d) ^ e }",
    ];
    for p in progs {
        check_program(p);
    }
}

#[test]
fn big_circuits() {
    let mut rng = Rng(777);
    for it in 0..6 {
        let ssa = random_ssa(&mut rng, 70_000 * (1 + it % 2), 300_000);
        if let Err(e) = check_all(&ssa, Some(&mut rng)) {
            panic!("big {it}: {e}");
        }
    }
    // every party 0 bits except the last, many parties
    let mut input_gates = vec![0usize; 5000];
    input_gates[4999] = 1;
    input_gates[17] = 2;
    let ssa = Ssa { input_gates, gates: vec![Gate::And(0, 2), Gate::Xor(3, 3)], output_gates: vec![4, 1, 3] };
    check_all(&ssa, None).unwrap();
}

#[test]
fn bristol_mult64() {
    let ssa = Ssa::bristol_to_garble(std::path::Path::new("bristol_examples/mult64.txt")).unwrap();
    let mut rng = Rng(99);
    check_all(&ssa, Some(&mut rng)).unwrap();
}

#[test]
fn example_programs() {
    for f in ["garble_examples/calculator.garble.rs", "garble_examples/millionaires.garble.rs"] {
        let src = std::fs::read_to_string(f).unwrap();
        check_program(&src);
    }
    let src = std::fs::read_to_string("garble_examples/credit_scoring.garble.rs").unwrap();
    let prg = garble_lang::check(&src).unwrap();
    let (ssa, _) = prg.compile("compute_score").unwrap();
    let mut rng = Rng(5);
    check_all(&ssa, Some(&mut rng)).unwrap();

    // consts + register kind
    use garble_lang::{CircuitKind, CompileOptions, compile_with_options, literal::Literal, token::UnsignedNumType};
    let src = "const N: usize = PARTY_0::N; pub fn main(x: [u8; N], y: u8) -> u8 { let mut s = y; for e in x { s = s ^ e; } s }";
    for n in 0..4u64 {
        let mut consts = std::collections::HashMap::new();
        consts.insert("PARTY_0".to_string(), std::collections::HashMap::from([("N".to_string(), Literal::NumUnsigned(n, UnsignedNumType::Usize))]));
        let s = compile_with_options(src, CompileOptions { consts: consts.clone(), ..Default::default() }).unwrap();
        let r = compile_with_options(src, CompileOptions { consts, circuit_kind: CircuitKind::Register, ..Default::default() }).unwrap();
        let ssa = s.circuit.unwrap_ssa_ref();
        assert_eq!(ssa.validate(), Ok(()));
        check_all(ssa, Some(&mut rng)).unwrap();
        assert_eq!(r.circuit.unwrap_register_ref(), &RegC::from(ssa));
        if n == 0 { continue; }
        // evaluator path
        let xs = format!("[{}]", (0..n).map(|i| format!("{}", i * 7 + 3)).collect::<Vec<_>>().join(", "));
        let run = |p: &garble_lang::GarbleProgram| {
            let mut ev = p.evaluator();
            ev.parse_literal(&xs).unwrap();
            ev.parse_literal("200").unwrap();
            ev.run().unwrap().into_literal().unwrap()
        };
        assert_eq!(run(&s), run(&r));
    }
}

#[test]
fn validate_soundness_on_mutated_register_circuits() {
    let mut rng = Rng(4242);
    let mut accepted = 0;
    for _ in 0..300_000 {
        let ssa = random_ssa(&mut rng, 4, 8);
        let mut reg: RegC = (&ssa).into();
        for _ in 0..(1 + rng.below(3)) {
            let r = Reg(rng.below(reg.max_reg_count + 2) as u32);
            match rng.below(8) {
                0 => reg.max_reg_count = rng.below(reg.max_reg_count + 2),
                1 => { let i = rng.below(reg.insts.len()); reg.insts[i].out = r; }
                2 => { let i = rng.below(reg.insts.len()); reg.insts[i].op = match rng.below(4) {
                        0 => Op::Not(Not(r)),
                        1 => Op::Xor(Xor(r, Reg(rng.below(reg.max_reg_count + 1) as u32))),
                        2 => Op::And(And(Reg(rng.below(reg.max_reg_count + 1) as u32), r)),
                        _ => Op::Input(Input { party: rng.below(reg.input_regs.len() + 1) as u32, input: rng.below(4) as u32 }),
                    }; }
                3 => { let i = rng.below(reg.output_regs.len()); reg.output_regs[i] = r; }
                4 => { let i = rng.below(reg.insts.len()); reg.insts.remove(i); }
                5 => { let i = rng.below(reg.insts.len()); let j = rng.below(reg.insts.len()); reg.insts.swap(i, j); }
                6 => { let i = rng.below(reg.input_regs.len()); reg.input_regs[i] = rng.below(4); }
                _ => { let i = rng.below(reg.insts.len()); let x = reg.insts[i]; reg.insts.insert(rng.below(reg.insts.len()), x); }
            }
            if reg.insts.is_empty() { break; }
        }
        if reg.validate().is_ok() {
            accepted += 1;
            let inputs: Vec<Vec<bool>> = reg.input_regs.iter().map(|n| (0..*n).map(|_| rng.below(2) == 1).collect()).collect();
            let strict = strict_eval_reg(&reg, &inputs).unwrap_or_else(|e| panic!("validated but unsafe: {e}\n{reg:?}"));
            assert_eq!(strict, reg.eval(&inputs));
        }
    }
    println!("accepted {accepted}");
    assert!(accepted > 1000);
}
