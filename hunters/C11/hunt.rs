//! Property C11: Bristol export/import preserves the function; malformed files are rejected.
//! One test per distinct defect; every test FAILS on the unchanged code.

use garble_lang::{
    circuit::{Circuit, PANIC_RESULT_SIZE_IN_BITS},
    compile,
};
use std::{io::Write, panic::catch_unwind};
use tempfile::NamedTempFile;

/// Writes `text` to a temporary file and imports it, catching panics of the importer.
fn import(text: &str) -> std::thread::Result<Result<Circuit, String>> {
    let mut f = NamedTempFile::new().unwrap();
    f.write_all(text.as_bytes()).unwrap();
    f.flush().unwrap();
    let path = f.path().to_path_buf();
    let r = catch_unwind(move || Circuit::bristol_to_garble(&path).map_err(|e| format!("{e:?}")));
    drop(f);
    r
}

/// D1: a 3-line file whose header declares a huge wire count makes the importer panic
/// ("capacity overflow" in `vec![0; wires_num]`); with a slightly smaller number (e.g. 2^40) the
/// process is even aborted ("memory allocation of 8796093022208 bytes failed", SIGABRT), which no
/// caller can catch.
///
/// Correct behaviour: `Err(FromBristolError::MalformedLine(..))` (or any other error): the file
/// declares 2^60 wires but contains no gate at all, so it can never be a well-formed circuit; the
/// tables must not be sized from an unchecked number in the header.
#[test]
fn d1_import_huge_wire_count_panics() {
    // 2^60 wires, one party with 0 bits, one output value with 0 bits, no gates.
    let r = import("0 1152921504606846976\n1 0\n1 0\n");
    assert!(
        r.is_ok(),
        "bristol_to_garble panicked instead of returning a circuit or an error"
    );
    assert!(r.unwrap().is_err(), "a file declaring 2^60 wires and no gates must be rejected");
}

/// D2: a gate may read a wire that has not been assigned yet (here: its own output wire 2). The
/// importer accepts the file and returns `Circuit { gates: [Xor(0, 2)], .. }` where wire 2 is the
/// gate itself: `Circuit::validate` reports `InvalidGate(2)` and `Circuit::eval` panics with
/// "called `Option::unwrap()` on a `None` value".
/// (If the unassigned wire is not the gate's own output, e.g. `2 1 0 3 2 XOR` followed by
/// `2 1 0 1 3 XOR`, the read silently becomes a read of wire 0, a different function.)
///
/// Correct behaviour: the file is rejected with an error, because every non-input wire must be
/// assigned before it is used.
#[test]
fn d2_import_accepts_use_of_unassigned_wire() {
    let text = "1 3\n1 2\n1 1\n\n2 1 0 2 2 XOR\n";
    let r = import(text).expect("importer panicked");
    if let Ok(circuit) = &r {
        // What the unchanged code returns is not even a valid circuit:
        assert_eq!(
            circuit.validate(),
            Ok(()),
            "imported circuit is invalid: {circuit:?}"
        );
    }
    assert!(r.is_err(), "gate reads wire 2 before it is assigned, file must be rejected");
}

/// D3: the declared output wires are never assigned by any gate. The importer initialises
/// `output_gates` with 0 and never checks that every entry was filled in, so the file is accepted
/// and its output silently becomes *input wire 0* (`output_gates: [0]`), i.e. the imported
/// "circuit" leaks the first input bit.
///
/// Correct behaviour: an error (wire 2, the declared output, is never assigned; also the header
/// declares 3 wires, but only 2 exist).
#[test]
fn d3_import_accepts_unassigned_output_wire() {
    // 0 gates, 3 wires, one party with 2 bits, one output bit (= wire 2), no gate lines.
    let r = import("0 3\n1 2\n1 1\n").expect("importer panicked");
    assert!(
        r.is_err(),
        "output wire 2 is never assigned, but the file is accepted as {r:?}"
    );
}

/// D4: a wire is assigned twice (and similarly a gate may overwrite an *input* wire, e.g.
/// `2 1 0 1 0 XOR`). The importer accepts the file; the second assignment wins, the result has
/// more wires (4) than the header declares (3).
///
/// Correct behaviour: an error, because every non-input wire must be assigned exactly once (and
/// input wires never).
#[test]
fn d4_import_accepts_wire_assigned_twice() {
    let twice = "2 3\n1 2\n1 1\n\n2 1 0 1 2 XOR\n2 1 0 1 2 AND\n";
    let r = import(twice).expect("importer panicked");
    assert!(r.is_err(), "wire 2 is assigned twice, but the file is accepted as {r:?}");
    let input_overwritten = "1 3\n1 2\n1 1\n\n2 1 0 1 0 XOR\n";
    let r = import(input_overwritten).expect("importer panicked");
    assert!(r.is_err(), "input wire 0 is assigned by a gate, but the file is accepted as {r:?}");
}

/// D5: the declared number of gates (first number of the header) is read and then ignored
/// (`_gates_num`): a file that declares 5 gates but contains 1 is accepted, and so is a truncated
/// export (every prefix of a valid export that ends at a line boundary after the header).
///
/// Correct behaviour: an error, the header does not match the body.
#[test]
fn d5_import_ignores_declared_gate_count() {
    let r = import("5 3\n1 2\n1 1\n\n2 1 0 1 2 XOR\n").expect("importer panicked");
    assert!(r.is_err(), "header declares 5 gates, body has 1, but the file is accepted as {r:?}");
}

/// D6: a program whose parameters have no bits at all compiles, and `format_as_bristol` returns
/// `Ok(())`, but the exported text is not well-formed Bristol: its first gate is
/// `2 1 0 0 0 XOR`, i.e. wire 0 is read before (while) it is assigned, because the constants
/// false / true are derived from "input wire 0", which does not exist.
/// (For `pub fn main(x: [bool; 0]) -> bool { true }` the input line of the export is `0 `, which
/// `bristol_to_garble` itself rejects as `MalformedLine("0 ")`.)
///
/// Correct behaviour: either an error from the export (a constant cannot be expressed with
/// XOR / AND / INV without any input wire), or a text in which every wire is assigned before it
/// is used and which can be imported and evaluated again.
#[test]
fn d6_export_of_program_without_input_bits_is_ill_formed() {
    let prg = "pub fn main(x: ()) -> bool { true }";
    let compiled = compile(prg).unwrap();
    let circuit = compiled.circuit.unwrap_ssa().clone();
    assert_eq!(circuit.output_gates.len(), PANIC_RESULT_SIZE_IN_BITS + 1);
    let f = NamedTempFile::new().unwrap();
    if circuit.format_as_bristol(f.path()).is_err() {
        return; // an error would be fine
    }
    let text = std::fs::read_to_string(f.path()).unwrap();
    // Well-formedness: every wire is assigned (by being an input or a gate output) before it is used.
    let mut lines = text.lines();
    let header: Vec<usize> = lines.next().unwrap().split_whitespace().map(|n| n.parse().unwrap()).collect();
    let inputs: Vec<usize> = lines.next().unwrap().split_whitespace().map(|n| n.parse().unwrap()).collect();
    let _outputs = lines.next().unwrap();
    let mut assigned = vec![false; header[1]];
    for w in assigned.iter_mut().take(inputs[1..].iter().sum()) {
        *w = true;
    }
    for line in lines {
        let parts: Vec<&str> = line.split_whitespace().collect();
        if parts.is_empty() {
            continue;
        }
        let n_in: usize = parts[0].parse().unwrap();
        for w in &parts[2..2 + n_in] {
            let w: usize = w.parse().unwrap();
            assert!(assigned[w], "export is ill-formed, wire {w} is used before it is assigned in {line:?}:\n{text}");
        }
        let out: usize = parts[2 + n_in].parse().unwrap();
        assert!(!assigned[out], "wire {out} assigned twice");
        assigned[out] = true;
    }
}
