//! Property C11 (Bristol export/import): one failing test per defect found on the unchanged code.
//! Copy to tests/ and run with `cargo test --offline --test hunt`.
use garble_lang::circuit::Circuit;
use std::io::Write;
use tempfile::NamedTempFile;

fn import_text(text: &str) -> std::thread::Result<Result<Circuit, String>> {
    let mut f = NamedTempFile::new().unwrap();
    f.write_all(text.as_bytes()).unwrap();
    f.flush().unwrap();
    let p = f.path().to_path_buf();
    std::panic::catch_unwind(move || {
        Circuit::bristol_to_garble(&p).map_err(|e| format!("{e:?}"))
    })
}

/// DEFECT 1: a 3-line text file whose header declares a gigantic number of *input* wires makes
/// the importer panic ("capacity overflow" in `vec![0; wires_num]`, src/convert.rs:343) or, for
/// slightly smaller numbers such as 100000000000000, abort the whole process ("memory allocation
/// of 800000000000000 bytes failed", SIGABRT). The size check before the allocation only bounds
/// `wires_num - input_wires` by the length of the file, not `wires_num` itself.
///
/// Correct behaviour: `bristol_to_garble` returns an error (or a circuit) for every text file and
/// never panics / aborts; its tables must not be sized by an unchecked number from the header.
#[test]
fn importer_panics_on_huge_declared_input_wire_count() {
    for text in [
        // usize::MAX wires, all of them inputs of one party, no outputs, no gates
        "0 18446744073709551615\n1 18446744073709551615\n1 0\n",
        // same with one output (which is an input wire)
        "0 18446744073709551615\n1 18446744073709551615\n1 1\n",
        // 2^61 wires: 8 * 2^61 bytes overflow isize as well
        "0 2305843009213693952\n2 2305843009213693951 1\n1 0\n",
    ] {
        let r = import_text(text);
        assert!(
            r.is_ok(),
            "bristol_to_garble panicked instead of returning an error for {text:?}"
        );
    }
}

/// DEFECT 2: the declared number of gates (first number of the header) is parsed and then thrown
/// away (`_gates_num`), so a file whose header contradicts its body (e.g. a file that lost lines,
/// or got lines of another file appended) is accepted.
///
/// Correct behaviour: a file that declares 5 gates but contains 1 gate line is malformed and must
/// be rejected with an error.
#[test]
fn importer_accepts_wrong_gate_count() {
    let text = "5 3\n2 1 1\n1 1\n\n2 1 0 1 2 XOR\n";
    let r = import_text(text).expect("no panic");
    assert!(
        r.is_err(),
        "a file declaring 5 gates but containing 1 gate was accepted: {:?}",
        r.map(|c| c.gates)
    );
    // (the other direction is accepted as well)
    let text = "0 3\n2 1 1\n1 1\n\n2 1 0 1 2 XOR\n";
    let r = import_text(text).expect("no panic");
    assert!(r.is_err(), "a file declaring 0 gates but containing 1 gate was accepted");
}

/// DEFECT 3: the declared number of wires is not checked against the wires that exist: a
/// non-input wire that is never assigned by any gate is accepted as long as it is not an output
/// and is never read ("every non-input wire is assigned exactly once" is only enforced as "at most
/// once"). The imported circuit then has fewer wires (3) than the file declares (4).
///
/// Correct behaviour: wire 2 is declared (4 wires, 2 of them inputs) but never assigned, so the
/// file is malformed and must be rejected with an error.
#[test]
fn importer_accepts_never_assigned_wire() {
    let text = "1 4\n2 1 1\n1 1\n\n2 1 0 1 3 XOR\n";
    let r = import_text(text).expect("no panic");
    assert!(
        r.is_err(),
        "a file whose wire 2 is never assigned was accepted: {:?}",
        r.map(|c| (c.gates, c.output_gates))
    );
}
