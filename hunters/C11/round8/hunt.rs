// Round 8, C11 (Bristol importer regression hunt). One test per defect; fails on the unchanged code.
use garble_lang::circuit::Circuit;
use std::io::Write;
use tempfile::NamedTempFile;

fn vm_hwm_kb() -> usize {
    let s = std::fs::read_to_string("/proc/self/status").unwrap();
    s.lines()
        .find(|l| l.starts_with("VmHWM"))
        .unwrap()
        .split_whitespace()
        .nth(1)
        .unwrap()
        .parse()
        .unwrap()
}

/// D1 (regression of 8985a92): a tiny file that is malformed AFTER its input line (here: the output
/// line is missing) is rejected only after both tables of `wires_num` entries were allocated AND
/// written (`table` = try_reserve_exact + resize, which touches every page; 9 bytes per declared wire).
/// Before that commit the tables were created after the output line had been parsed, so the same
/// file was rejected with MissingLine in microseconds without committing any memory.
/// Correct behaviour: a 22-byte file without an output line is rejected without committing memory
/// proportional to the number it declares (with 7*10^9 instead of 2^28 the process is OOM-killed on a
/// 64 GB machine, which is worse than the panic the commit set out to remove).
#[test]
fn malformed_file_is_rejected_before_tables_are_committed() {
    let n = 1usize << 28; // 2.4 GB; scale up to reach the OOM killer
    let mut f = NamedTempFile::new().unwrap();
    write!(f, "0 {n}\n1 {n}\n").unwrap(); // no output line
    f.flush().unwrap();
    let before = vm_hwm_kb();
    let r = Circuit::bristol_to_garble(f.path());
    let grown_kb = vm_hwm_kb() - before;
    assert!(r.is_err());
    assert!(
        grown_kb < 100_000,
        "rejecting a 22-byte malformed file committed {grown_kb} kB"
    );
}
