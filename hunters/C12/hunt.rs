//! Property C12: const parameters act as literal substitution; missing / mistyped ones are errors.
//!
//! Every test in this file FAILS on the unchanged code. Copy the file to `tests/hunt_c12.rs` and run
//! `cargo test --offline --test hunt_c12`.

use garble_lang::{
    CompileTimeError, Error, compile_with_constants,
    literal::Literal,
    token::{SignedNumType, UnsignedNumType},
};
use std::collections::HashMap;

type Consts = HashMap<String, HashMap<String, Literal>>;

fn consts(v: &[(&str, &str, Literal)]) -> Consts {
    let mut m: Consts = HashMap::new();
    for (p, c, l) in v {
        m.entry(p.to_string())
            .or_default()
            .insert(c.to_string(), l.clone());
    }
    m
}

fn u8l(n: u64) -> Literal {
    Literal::NumUnsigned(n, UnsignedNumType::U8)
}
fn i8l(n: i64) -> Literal {
    Literal::NumSigned(n, SignedNumType::I8)
}
fn usl(n: u64) -> Literal {
    Literal::NumUnsigned(n, UnsignedNumType::Usize)
}

/// Compiles the program with the constants, runs it on the inputs and displays the output.
fn run(prg: &str, c: Consts, inputs: &[&str]) -> String {
    let p = compile_with_constants(prg, c).unwrap_or_else(|e| panic!("{}", e.prettify(prg)));
    let mut ev = p.evaluator();
    for i in inputs {
        ev.parse_literal(i).unwrap_or_else(|e| panic!("{}", e.prettify(prg)));
    }
    let out = ev.run().unwrap_or_else(|e| panic!("{}", e.prettify(prg)));
    out.into_literal()
        .unwrap_or_else(|e| panic!("{}", e.prettify(prg)))
        .to_string()
}

/// DEFECT 1: `+` / `-` in a const definition are evaluated in 64 bits (u64 / i64) and only the final
/// result is cut down to the width of the const's type, so a `min` / `max` over a sum or difference
/// that wraps in the const's type (u8, u16, u32, usize, i8, i16, i32) compares the unwrapped 64-bit
/// value. The same unwrapped value is what a later const definition sees when it refers to the const.
///
/// Correct behaviour (docs: "Arithmetic operations on constants are defined to wrap in case of an
/// overflow"): `max(200u8 + 100u8, 50u8)` is `max(44u8, 50u8)` = 50, just like in the program with
/// the values substituted and evaluated in wrapping u8 arithmetic.
#[test]
fn c12_min_max_over_a_sum_that_wraps_in_the_const_type() {
    // unsigned: 200 + 100 wraps to 44 in u8
    let prg = "
const X: u8 = max(P::A + P::B, 50u8);
pub fn main(x: u8) -> u8 { X }
";
    let c = consts(&[("P", "A", u8l(200)), ("P", "B", u8l(100))]);
    let expected = 200u8.wrapping_add(100).max(50); // 50
    assert_eq!(run(prg, c, &["0"]), expected.to_string()); // observed: 44 (= 300 as u8)

    // signed: -128 + -115 wraps to 13 in i8
    let prg = "
const X: i8 = max(P::A + P::B, 0i8);
pub fn main(x: u8) -> i8 { X }
";
    let c = consts(&[("P", "A", i8l(-128)), ("P", "B", i8l(-115))]);
    let expected = (-128i8).wrapping_add(-115).max(0); // 13
    assert_eq!(run(prg, c, &["0"]), expected.to_string()); // observed: 0

    // a const that refers to an earlier const sees the unwrapped value of that const
    let prg = "
const X: u8 = 200u8 + 100u8;
const Y: u8 = min(X, 100u8);
pub fn main(x: u8) -> (u8, u8) { (X, Y) }
";
    assert_eq!(run(prg, consts(&[]), &["0"]), "(44, 44)"); // observed: (44, 100)
}

/// DEFECT 1b (same root cause as defect 1, seen through array sizes): a `usize` const is 32 bits
/// wide in Garble (`usize` values above u32::MAX are refused as constants, the wires of a usize are
/// 32), but the *size* that is recorded for it (`const_sizes`, used for array types, `[x; N]`, loop
/// trip counts and the number of parties) is the untruncated 64-bit result. The value of `N` as a
/// number and the length of `[u8; N]` then disagree.
///
/// Correct behaviour: 4294967295usize + 3usize wraps to 2 in usize arithmetic, so `N` is 2 both as
/// a value and as an array size (as in the program with the literal 2 substituted).
#[test]
fn c12_usize_const_as_size_is_not_wrapped_to_the_width_of_usize() {
    let prg = "
const N: usize = P::A + P::B;
pub fn main(x: u8) -> usize { N }
";
    let c = consts(&[("P", "A", usl(4294967295)), ("P", "B", usl(3))]);
    let p = compile_with_constants(prg, c.clone()).unwrap();
    // the value of N is the wrapped one:
    assert_eq!(run(prg, c.clone(), &["0"]), "2");
    // ... but the array size that N stands for is not (observed: 4294967298):
    assert_eq!(p.const_sizes["N"], 2);

    // with a min() on top, the wrong size is small enough to be compiled, N should be min(2, 5):
    let prg = "
const N: usize = min(P::A + P::B, 5usize);
pub fn main(x: u8) -> [u8; N] { [x; N] }
";
    assert_eq!(run(prg, c, &["7"]), "[7, 7]"); // observed: [7, 7, 7, 7, 7]
}

/// DEFECT 2: an argument of a struct (or enum) type that has a field `[T; N]` with a const size can
/// not be supplied at all: `parse_arg`, `literal_arg`, `Evaluator::parse_literal` and
/// `Evaluator::set_literal` refuse every literal. Only the outermost parameter type is resolved with
/// the const sizes (`resolve_const_type`), the field types of struct / enum definitions still carry
/// `ArrayConst("N")`, which `Literal::is_of_type` has no case for and which `Literal::parse` compares
/// against `[u8; 2]`.
///
/// Correct behaviour: as for the program with `struct S { a: [u8; 2] }`, the literal
/// `S { a: [1, 2] }` is accepted and encoded as 16 bits.
#[test]
fn c12_struct_argument_with_a_const_sized_array_field_is_refused() {
    let prg = "
const N: usize = P::N;
struct S { a: [u8; N] }
pub fn main(x: S) -> u8 { x.a[1] }
";
    let p = compile_with_constants(prg, consts(&[("P", "N", usl(2))])).unwrap();

    let lit = Literal::Struct(
        "S".to_string(),
        vec![("a".to_string(), Literal::Array(vec![u8l(1), u8l(2)]))],
    );
    let by_literal = p.literal_arg(0, lit).map(|a| a.as_bits().len());
    let by_parsing = p.parse_arg(0, "S { a: [1, 2] }").map(|a| a.as_bits().len());
    // observed: Err(InvalidLiteralType(..)) and Err(LiteralParseError(.. expected ArrayConst(U8, "N"),
    // actual Array(U8, 2)))
    assert_eq!(by_literal.ok(), Some(16));
    assert_eq!(by_parsing.ok(), Some(16));
    assert_eq!(run(prg, consts(&[("P", "N", usl(2))]), &["S { a: [1, 2] }"]), "2");
}

/// DEFECT 3: the error for a constant that was supplied with the wrong type does not name the
/// constant: `InvalidLiteralType(literal, type)` only carries the offending literal and the expected
/// type ("The literal is not of type 'u8': true"). With several declared constants of the same type
/// it is impossible to tell which of them is wrong (missing constants, in contrast, are reported as
/// `MissingConstant(party, name, ..)`).
///
/// Correct behaviour: the error names the party and the identifier of every mistyped constant.
#[test]
fn c12_mistyped_constant_is_not_named_in_the_error() {
    let prg = "
const FIRST: u8 = ALICE::FIRST;
const SECOND: u8 = BOB::SECOND;
pub fn main(x: u8) -> u8 { x + FIRST + SECOND }
";
    let c = consts(&[
        ("ALICE", "FIRST", u8l(1)),
        ("BOB", "SECOND", Literal::True), // wrong type
    ]);
    let Err(e) = compile_with_constants(prg, c) else {
        panic!("a bool was accepted as a u8")
    };
    assert!(matches!(
        e,
        Error::CompileTimeError(CompileTimeError::CompilerError(_))
    ));
    let pretty = e.prettify(prg);
    let debug = format!("{e:?}");
    // observed: "Compiler error:\nThe literal is not of type 'u8': true:" /
    // CompilerError([InvalidLiteralType(True, Unsigned(U8))])
    assert!(
        pretty.contains("SECOND") || debug.contains("SECOND"),
        "the mistyped constant BOB::SECOND is not named: {pretty} / {debug}"
    );
}

/// DEFECT 4 (borderline, generic top-level issue seen through consts): two const definitions of the
/// same name are accepted silently, the later one replaces the earlier one in the parser's HashMap.
/// The external constant that only the first definition declares is then neither required nor
/// reported, although it is declared in the program and not supplied.
///
/// Correct behaviour: either the duplicate definition is an error, or compiling without `P::U` is a
/// `MissingConstant("P", "U", ..)` error; in no case a successful compilation.
#[test]
fn c12_duplicate_const_definition_hides_a_declared_constant() {
    let prg = "
const U: u8 = P::U;
const U: u8 = Q::U;
pub fn main(x: u8) -> u8 { x + U }
";
    // P::U is declared by the program, but not supplied:
    let c = consts(&[("Q", "U", u8l(6))]);
    let r = compile_with_constants(prg, c);
    assert!(r.is_err(), "compiled although P::U was declared and never provided");
}
