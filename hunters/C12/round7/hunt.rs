//! Property C12: const parameters act as literal substitution (with min/max/+/- evaluated in the
//! wrapping arithmetic of the constant's type); missing / mistyped constants are errors that name
//! every such constant.
//!
//! Every test below FAILS on the unchanged code.

use std::collections::HashMap;

use garble_lang::{
    compile, compile_with_constants,
    literal::Literal,
    token::UnsignedNumType,
};

type Consts = HashMap<String, HashMap<String, Literal>>;

fn consts(entries: &[(&str, &str, Literal)]) -> Consts {
    let mut m: Consts = HashMap::new();
    for (party, name, literal) in entries {
        m.entry(party.to_string())
            .or_default()
            .insert(name.to_string(), literal.clone());
    }
    m
}

fn usize_lit(n: u64) -> Literal {
    Literal::NumUnsigned(n, UnsignedNumType::Usize)
}

/// Compiles with the constants, runs `main` on the arguments, returns the printed output literal.
fn run(prg: &str, consts: Option<Consts>, args: &[Literal]) -> String {
    let compiled = match consts {
        Some(consts) => compile_with_constants(prg, consts),
        None => compile(prg),
    }
    .unwrap_or_else(|e| panic!("does not compile:\n{}", e.prettify(prg)));
    let mut eval = compiled.evaluator();
    for arg in args {
        eval.set_literal(arg.clone())
            .unwrap_or_else(|e| panic!("argument {arg} rejected: {e}"));
    }
    let out = eval.run().unwrap_or_else(|e| panic!("{}", e.prettify(prg)));
    out.into_literal()
        .unwrap_or_else(|e| panic!("{}", e.prettify(prg)))
        .to_string()
}

/// Defect 1: `+` / `-` inside `min(..)` / `max(..)` are not evaluated in the wrapping arithmetic of
/// the const's type: the operands of min/max are 64-bit intermediate results, only the final
/// result is cut down to the width of the type.
///
/// Correct behaviour: in `u8`, `255 + 1` wraps to `0`, hence `max(255u8 + 1u8, 127u8) == 127`
/// (this is what the program with the constants written out as literals means); the compiler
/// computes `max(256, 127) = 256` and then truncates to `0`.
#[test]
fn c12_min_max_operands_are_not_wrapped_to_the_const_type() {
    let prg = "
const C: u8 = max(P0::X + P1::Y, 127u8);
pub fn main(x: u8) -> u8 { C ^ x }
";
    let out = run(
        prg,
        Some(consts(&[
            ("P0", "X", Literal::from(255u8)),
            ("P1", "Y", Literal::from(1u8)),
        ])),
        &[Literal::from(0u8)],
    );
    assert_eq!(out, (255u8.wrapping_add(1)).max(127).to_string());
}

/// Defect 1b (same root cause as defect 1, but a different place: the value that is remembered for
/// *later const definitions* is the un-truncated 64-bit result, `consts_unsigned.insert(name, n)`
/// / `consts_signed.insert(name, n)` in `compile_with_constants`).
///
/// Correct behaviour: `A` is the i8 value `100 + 100 = -56` (this is also what `A` evaluates to
/// when it is used in `main`), so `max(A, 0i8)` is `0`. The compiler uses `A = 200` for the second
/// definition, gets `max(200, 0) = 200` and truncates this to `-56`: `C != max(A, 0)` although
/// both are consts of the same program.
#[test]
fn c12_earlier_const_is_seen_unwrapped_by_later_const() {
    let prg = "
const A: i8 = P0::X + P1::Y;
const C: i8 = max(A, 0i8);
pub fn main(x: i8) -> (i8, i8) { (A, C) }
";
    let out = run(
        prg,
        Some(consts(&[
            ("P0", "X", Literal::from(100i8)),
            ("P1", "Y", Literal::from(100i8)),
        ])),
        &[Literal::from(0i8)],
    );
    let a = 100i8.wrapping_add(100);
    assert_eq!(out, format!("({}, {})", a, a.max(0)));
}

/// Defect 2: a `usize` const is a 32-bit number everywhere in the circuit (and an external usize
/// literal above `u32::MAX` is rejected), but its *array size* (`const_sizes`) is computed with
/// 64-bit arithmetic. After a wrapping `+` / `-` the size of `[T; N]` is no longer the value of
/// `N`.
///
/// Correct behaviour: `4294967295usize + 3usize` wraps to `2`, so `N == 2` (that is what `main`
/// returns) and arrays of type `[T; N]` have 2 elements, i.e. `const_sizes["N"] == 2`. The compiler
/// records the size 4294967298.
#[test]
fn c12_usize_const_array_size_differs_from_wrapped_value() {
    let prg = "
const N: usize = P0::A + P1::B;
pub fn main(x: usize) -> usize { N ^ x }
";
    let compiled = compile_with_constants(
        prg,
        consts(&[
            ("P0", "A", usize_lit(u32::MAX as u64)),
            ("P1", "B", usize_lit(3)),
        ]),
    )
    .unwrap_or_else(|e| panic!("{}", e.prettify(prg)));
    let mut eval = compiled.evaluator();
    eval.set_usize(0);
    let value_of_n = usize::try_from(eval.run().unwrap()).unwrap();
    assert_eq!(value_of_n, 2, "value of N inside the circuit");
    assert_eq!(
        compiled.const_sizes["N"], value_of_n,
        "number of elements of [T; N] must be the value of N"
    );
}

/// Defect 3: an externally supplied constant whose type is an array with a const size (or a
/// struct / tuple that contains such an array) is always rejected as "not of type", because the
/// literal is checked against the unresolved type `[u8; N]` (`Literal::is_of_type` only knows
/// `Type::Array`).
///
/// Correct behaviour: with `N = 3` the program is the program with `const A: [u8; 3] = P::A;`,
/// which accepts the literal `[10, 20, 30]` (see the second half of the test).
#[test]
fn c12_const_of_array_type_with_const_size_is_rejected() {
    let with_literal_size = "
const A: [u8; 3] = P::A;
pub fn main(i: usize) -> u8 { A[i] }
";
    let with_const_size = "
const N: usize = P::N;
const A: [u8; N] = P::A;
pub fn main(i: usize) -> u8 { A[i] }
";
    let a = Literal::Array(vec![
        Literal::from(10u8),
        Literal::from(20u8),
        Literal::from(30u8),
    ]);
    let expected = run(
        with_literal_size,
        Some(consts(&[("P", "A", a.clone())])),
        &[usize_lit(1)],
    );
    assert_eq!(expected, "20");
    let actual = run(
        with_const_size,
        Some(consts(&[("P", "N", usize_lit(3)), ("P", "A", a)])),
        &[usize_lit(1)],
    );
    assert_eq!(actual, expected);
}

/// Defect 4: an argument of `main` whose type is a struct (or an enum) with a field of type
/// `[T; N]` can never be supplied: `resolve_const_type` (used for checking / parsing arguments in
/// `set_literal`, `parse_literal`, `literal_arg`, `parse_arg`) does not resolve the const sizes
/// inside of struct and enum definitions and `Literal::is_of_type` / `Literal::parse` reject an
/// array literal for a field of type `[u8; N]`.
///
/// Correct behaviour: with `N = 2` the program is the program with `struct S { a: [u8; 2] }`,
/// which accepts `S { a: [1, 2] }` (see the first half of the test).
#[test]
fn c12_struct_argument_with_const_sized_array_field_is_rejected() {
    let with_literal_size = "
struct S { a: [u8; 2] }
pub fn main(s: S, k: u8) -> u8 { s.a[0] + s.a[1] + k }
";
    let with_const_size = "
const N: usize = P::N;
struct S { a: [u8; N] }
pub fn main(s: S, k: u8) -> u8 { s.a[0] + s.a[1] + k }
";
    let s = Literal::Struct(
        "S".to_string(),
        vec![(
            "a".to_string(),
            Literal::Array(vec![Literal::from(1u8), Literal::from(2u8)]),
        )],
    );
    let expected = run(with_literal_size, None, &[s.clone(), Literal::from(4u8)]);
    assert_eq!(expected, "7");

    let compiled = compile_with_constants(with_const_size, consts(&[("P", "N", usize_lit(2))]))
        .unwrap_or_else(|e| panic!("{}", e.prettify(with_const_size)));
    // all four ways of supplying the argument fail:
    let parsed = compiled.parse_arg(0, "S { a: [1, 2] }");
    assert!(parsed.is_ok(), "parse_arg: {:?}", parsed.err());
    let checked = compiled.literal_arg(0, s.clone());
    assert!(checked.is_ok(), "literal_arg: {:?}", checked.err());
    let actual = run(
        with_const_size,
        Some(consts(&[("P", "N", usize_lit(2))])),
        &[s, Literal::from(4u8)],
    );
    assert_eq!(actual, expected);
}

/// Defect 5: the error for a constant that is supplied with the wrong type does not name the
/// constant: `CompilerError::InvalidLiteralType(literal, type)` carries neither the party nor the
/// identifier nor a location (in contrast to `MissingConstant(party, identifier, meta)`). If two
/// parties supply the same wrong literal the two errors are even indistinguishable.
///
/// Correct behaviour: the error names every mistyped constant (`P1::ROWS` and `P2::COLS` here).
#[test]
fn c12_error_for_mistyped_constant_does_not_name_the_constant() {
    let prg = "
const ROWS: usize = P1::ROWS;
const COLS: usize = P2::COLS;
const OK: usize = P3::FINE;
pub fn main(x: u8) -> u8 { x }
";
    let err = compile_with_constants(
        prg,
        consts(&[
            ("P1", "ROWS", Literal::from(2u32)),
            ("P2", "COLS", Literal::from(2u32)),
            ("P3", "FINE", usize_lit(2)),
        ]),
    )
    .err()
    .expect("mistyped constants must be an error");
    let msg = format!("{}\n{err:?}", err.prettify(prg));
    assert!(!msg.contains("FINE"), "{msg}");
    assert!(msg.contains("ROWS"), "P1::ROWS is not named: {msg}");
    assert!(msg.contains("COLS"), "P2::COLS is not named: {msg}");
}
