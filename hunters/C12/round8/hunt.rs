// Hunt C12 (round 8): one #[test] per defect, each FAILS on the unchanged code.
use garble_lang::{compile_with_constants, garble_consts, literal::Literal};

/// A const of an array type whose size is a usize const (or a const size expression) rejects the
/// correctly sized literal with InvalidLiteralType, although the program with the size written
/// out (`const A: [u8; 2] = P0::X;`) compiles and returns 4.
/// Correct: both programs compile and `main` returns 4 (the const N acts as the literal 2).
#[test]
fn c12_array_const_with_const_size_rejects_the_right_literal() {
    let arr = || Literal::Array(vec![Literal::from(3u8), Literal::from(4u8)]);
    // literal substitution: works
    let lit = "const A: [u8; 2] = P0::X;\npub fn main(x: u8) -> u8 { A[1] }";
    let c = compile_with_constants(lit, garble_consts!("P0" => {"X" => arr()})).unwrap();
    let mut ev = c.evaluator();
    ev.set_u8(0);
    assert_eq!(u8::try_from(ev.run().unwrap()).unwrap(), 4);
    // the same with the size as a const:
    for prg in [
        "const N: usize = P0::N;\nconst A: [u8; N] = P0::X;\npub fn main(x: u8) -> u8 { A[1] }",
        "const N: usize = P0::N;\nconst A: [u8; const { N + 1usize - 1usize }] = P0::X;\npub fn main(x: u8) -> u8 { A[1] }",
    ] {
        let consts = garble_consts!("P0" => {"N" => 2usize, "X" => arr()});
        let c = compile_with_constants(prg, consts)
            .unwrap_or_else(|e| panic!("should compile:\n{}", e.prettify(prg)));
        let mut ev = c.evaluator();
        ev.set_u8(0);
        assert_eq!(u8::try_from(ev.run().unwrap()).unwrap(), 4);
    }
}

/// `min()` / `max()` without arguments are accepted in const definitions and evaluate to the
/// MAX / MIN of the 64-bit type the evaluator computes with, which is not reduced to the type of
/// the const: the const itself shows the low bits (i8: -1), but later consts see i64::MAX, so
/// `max(A, 0i8)` is -1 although A reads as -1 and the maximum of -1 and 0 is 0.
/// Correct: either an error for the empty min(), or B == max(A, 0) for whatever value A has.
#[test]
fn c12_empty_min_leaks_unwrapped_value_into_later_consts() {
    let prg = "const A: i8 = min();\nconst B: i8 = max(A, 0i8);\npub fn main(x: u8) -> (i8, i8) { (A, B) }";
    let Ok(c) = compile_with_constants(prg, Default::default()) else {
        return; // rejecting the empty min() would be fine
    };
    let mut ev = c.evaluator();
    ev.set_u8(0);
    let out = ev.run().unwrap().into_literal().unwrap().to_string();
    let nums: Vec<i64> = out
        .trim_matches(|c| c == '(' || c == ')')
        .split(',')
        .map(|s| s.trim().trim_end_matches("i8").parse().unwrap())
        .collect();
    assert_eq!(nums[1], nums[0].max(0), "A = {}, B = max(A, 0i8) = {}", nums[0], nums[1]);
}
