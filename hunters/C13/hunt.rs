//! Property C13 (join / join_iter): one failing test per distinct defect found.
//! Copy to tests/ and run with `cargo test --offline --test hunt`.

use garble_lang::{compile, literal::Literal};

/// Defect 1: a for-join loop over two empty arrays crashes the compiler.
///
/// Zero-length arrays are ordinary values of the language (`for e in a` over `[T; 0]` compiles and
/// runs, and `join_iter` with exactly one empty side compiles and runs 0 iterations). With both
/// sides empty, `compile_bitonic_merge` computes `num_elems_a + num_elems_b - 1` as usize
/// (src/compile.rs:1708), which underflows: "attempt to subtract with overflow" in debug builds,
/// "capacity overflow" in release builds.
///
/// Correct behaviour: the program compiles; the loop body is executed for no pair, so main
/// returns `x` unchanged. (The same crash occurs for the `join` built-in on two empty arrays,
/// where a proper compile-time error about the size -1 would be expected instead of a Rust panic.)
#[test]
fn join_iter_over_two_empty_arrays_panics_the_compiler() {
    let prg = "
pub fn main(x: u8, a: [(u8, u8); 0], b: [(u8, u8); 0]) -> u8 {
    let mut r = x;
    for ((_, p), (_, q)) in join_iter(a, b) {
        r = r + p + q;
    }
    r
}";
    let compiled = std::panic::catch_unwind(|| compile(prg));
    let compiled = compiled
        .expect("the compiler must not panic on a for-join loop over two empty arrays")
        .expect("program should compile");
    let mut eval = compiled.evaluator();
    eval.set_u8(5);
    eval.set_literal(Literal::Array(vec![])).unwrap();
    eval.set_literal(Literal::Array(vec![])).unwrap();
    let out = eval.run().unwrap().into_literal().unwrap();
    assert_eq!(out.to_string(), "5");
}

/// Defect 2: `join_iter` rejects arrays whose size is a `const { .. }` expression
/// (`Type::ArrayConstExpr`), e.g. the result of `join` or a parameter `[T; const { 2usize + 1usize }]`,
/// with the self-contradictory message
/// "Expected an array type, but found [(u8, u8); 2usize + 1usize]".
///
/// Such arrays are accepted by plain `for` loops, by indexing and by the `join` built-in; only the
/// type check of `join_iter` (src/check.rs:922-942) matches `Type::Array | Type::ArrayConst` and
/// forgets `Type::ArrayConstExpr`.
///
/// Correct behaviour: the program compiles and the body runs once per pair with equal keys
/// (keys 2 and 3 here), i.e. the result is 2 + 10 + 3 + 20 = 35.
#[test]
fn join_iter_rejects_arrays_sized_by_a_const_expr() {
    let prg = "
pub fn main(a: [(u8, u8); const { 2usize + 1usize }], b: [(u8, u8); 2]) -> u8 {
    let mut r = 0u8;
    for ((_, x), (_, y)) in join_iter(a, b) {
        r = r + x + y;
    }
    r
}";
    let compiled = compile(prg).unwrap_or_else(|e| panic!("{}", e.prettify(prg)));
    let mut eval = compiled.evaluator();
    eval.parse_literal("[(1, 1), (2, 2), (3, 3)]").unwrap();
    eval.parse_literal("[(2, 10), (3, 20)]").unwrap();
    let out = eval.run().unwrap().into_literal().unwrap();
    assert_eq!(out.to_string(), "35");
}
