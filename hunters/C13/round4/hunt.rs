// C13 hunt (join / join_iter): NO DEFECT of the unchanged code was found that contradicts the
// property. There is therefore no failing #[test] in this file.
//
// What follows is the sweep harness that was used (copy of tests/hunt.rs). Every #[test] below
// PASSES on the unchanged code; the `explore_*` tests only print what the compiler does for a
// handful of programs (see notes.md for the findings). Run with
//   cp hunt_out/hunt.rs tests/hunt.rs && cargo test --offline --release --test hunt
// (join_loop_sweeps takes about two minutes in a debug build).

#![allow(dead_code)]
use garble_lang::{compile, GarbleProgram};
use std::rc::Rc;

fn run(prg: &GarbleProgram, args: &[String]) -> Result<Vec<bool>, String> {
    let mut eval = prg.evaluator();
    for a in args {
        if a == "[]" {
            eval.set_literal(garble_lang::literal::Literal::Array(vec![])).map_err(|e| format!("set []: {e:?}"))?;
        } else {
            eval.parse_literal(a).map_err(|e| format!("parse {a}: {e:?}"))?;
        }
    }
    let out = eval.run().map_err(|e| format!("{e:?}"))?;
    Vec::<bool>::try_from(out).map_err(|e| format!("{e:?}"))
}

fn to_bits(v: u64, n: usize) -> Vec<bool> {
    (0..n).map(|i| (v >> (n - 1 - i)) & 1 == 1).collect()
}

struct Rng(u64);
impl Rng {
    fn next(&mut self) -> u64 {
        self.0 ^= self.0 << 13;
        self.0 ^= self.0 >> 7;
        self.0 ^= self.0 << 17;
        self.0
    }
    fn below(&mut self, n: u64) -> u64 {
        if n == 0 { 0 } else { self.next() % n }
    }
}

#[derive(Clone)]
struct Ty {
    name: String,
    bits: usize,
    // number of distinct values to use (values 0..card map via `enc` to (literal, bits))
    card: u64,
    enc: Rc<dyn Fn(u64) -> (String, Vec<bool>)>,
    defs: String,
}

fn uint(name: &str, bits: usize) -> Ty {
    let card = if bits >= 64 { u64::MAX } else { 1u64 << bits };
    Ty {
        name: name.to_string(),
        bits,
        card,
        enc: Rc::new(move |v| (format!("{v}"), to_bits(v, bits))),
        defs: String::new(),
    }
}
fn boolean() -> Ty {
    Ty {
        name: "bool".into(),
        bits: 1,
        card: 2,
        enc: Rc::new(|v| (format!("{}", v == 1), vec![v == 1])),
        defs: String::new(),
    }
}
fn unit() -> Ty {
    Ty { name: "()".into(), bits: 0, card: 1, enc: Rc::new(|_| ("()".into(), vec![])), defs: String::new() }
}
fn pair_u8() -> Ty {
    Ty {
        name: "(u8, u8)".into(),
        bits: 16,
        card: 1 << 16,
        enc: Rc::new(|v| (format!("({}, {})", v >> 8, v & 255), to_bits(v, 16))),
        defs: String::new(),
    }
}
fn arr_u8_2() -> Ty {
    Ty {
        name: "[u8; 2]".into(),
        bits: 16,
        card: 1 << 16,
        enc: Rc::new(|v| (format!("[{}, {}]", v >> 8, v & 255), to_bits(v, 16))),
        defs: String::new(),
    }
}
fn strukt() -> Ty {
    Ty {
        name: "K".into(),
        bits: 9,
        card: 1 << 9,
        enc: Rc::new(|v| (format!("K {{a: {}, b: {}}}", v >> 1, v & 1 == 1), to_bits(v, 9))),
        defs: "struct K { a: u8, b: bool }\n".into(),
    }
}
// enum E { A, B(u8), C(bool) } : 2 tag bits + 8 payload bits
fn enm() -> Ty {
    Ty {
        name: "E".into(),
        bits: 10,
        card: 1 + 256 + 2,
        enc: Rc::new(|v| {
            if v == 0 {
                ("E::A".into(), to_bits(0, 10))
            } else if v <= 256 {
                let p = v - 1;
                (format!("E::B({p})"), [to_bits(1, 2), to_bits(p, 8)].concat())
            } else {
                let p = v - 257;
                (format!("E::C({})", p == 1), [to_bits(2, 2), to_bits(p, 1), to_bits(0, 7)].concat())
            }
        }),
        defs: "enum E { A, B(u8), C(bool) }\n".into(),
    }
}

fn all_defs(ps: &[Option<&Ty>]) -> String {
    let mut v: Vec<String> = ps.iter().flatten().map(|p| p.defs.clone()).collect();
    v.dedup();
    v.concat()
}

fn lit_arr(items: &[String]) -> String {
    format!("[{}]", items.join(", "))
}

/// sorted keys (indices into the key type's value space), `strict` => no duplicates
fn gen_keys(rng: &mut Rng, n: usize, card: u64, strict: bool, range: u64) -> Option<Vec<u64>> {
    let range = range.min(card);
    if strict && (n as u64) > range {
        return None;
    }
    let mut v: Vec<u64> = vec![];
    if strict {
        while v.len() < n {
            let k = rng.below(range);
            if !v.contains(&k) {
                v.push(k);
            }
        }
    } else {
        for _ in 0..n {
            v.push(rng.below(range));
        }
    }
    v.sort();
    Some(v)
}

struct Elem {
    lit: String,
    bits: Vec<bool>,
    key: u64,
}

fn mk_elems(rng: &mut Rng, keys: &[u64], k: &Ty, p: Option<&Ty>, zero_payload: bool) -> Vec<Elem> {
    keys.iter()
        .map(|&key| {
            let (kl, kb) = (k.enc)(key);
            match p {
                None => Elem { lit: kl, bits: kb, key },
                Some(p) => {
                    let pv = if zero_payload { 0 } else { rng.below(p.card) };
                    let (pl, pb) = (p.enc)(pv);
                    Elem { lit: format!("({kl}, {pl})"), bits: [kb, pb].concat(), key }
                }
            }
        })
        .collect()
}

fn elem_ty(k: &Ty, p: Option<&Ty>) -> String {
    match p {
        None => k.name.clone(),
        Some(p) => format!("({}, {})", k.name, p.name),
    }
}

/// checks `join(a, b)` result bits; returns Err(description)
fn check_join_func(
    out: &[bool],
    a: &[Elem],
    b: &[Elem],
    has_assoc: bool,
    ea_bits: usize,
    eb_bits: usize,
) -> Result<(), String> {
    let entry = 1 + ea_bits + if has_assoc { eb_bits } else { 0 };
    let len = a.len() + b.len() - 1;
    if out.len() != entry * len {
        return Err(format!("output has {} bits, expected {}", out.len(), entry * len));
    }
    let mut common: Vec<u64> = a.iter().map(|e| e.key).filter(|k| b.iter().any(|e| e.key == *k)).collect();
    common.dedup();
    let mut flags = vec![];
    let mut seen = vec![];
    for i in 0..len {
        let e = &out[i * entry..(i + 1) * entry];
        flags.push(e[0]);
        if !e[0] {
            if e.iter().any(|b| *b) {
                return Err(format!("unflagged entry {i} is not zero"));
            }
        } else {
            let ea = &e[1..1 + ea_bits];
            let Some(ma) = a.iter().find(|x| x.bits == ea) else {
                return Err(format!("flagged entry {i}: first component is not an element of a"));
            };
            if has_assoc {
                let eb = &e[1 + ea_bits..];
                let Some(mb) = b.iter().find(|x| x.bits == eb) else {
                    return Err(format!("flagged entry {i}: second component is not an element of b"));
                };
                if ma.key != mb.key {
                    return Err(format!("flagged entry {i}: keys differ"));
                }
            } else if !b.iter().any(|x| x.key == ma.key) {
                return Err(format!("flagged entry {i}: key not in b"));
            }
            seen.push(ma.key);
        }
    }
    seen.sort();
    if seen != common {
        return Err(format!("flagged keys {seen:?} but common keys {common:?}"));
    }
    let asc = flags.windows(2).all(|w| w[0] <= w[1]);
    if !asc {
        return Err(format!("flags not sorted: {flags:?}"));
    }
    Ok(())
}

fn sweep_join_func(k: Ty, pa: Option<Ty>, pb: Option<Ty>, max_n: usize, iters: usize, range: u64, strict: bool) -> Vec<String> {
    let mut failures = vec![];
    let mut rng = Rng(0x1234_5678_9abc_def1);
    let has_assoc = pa.is_some();
    let ea = elem_ty(&k, pa.as_ref());
    let eb = elem_ty(&k, pb.as_ref());
    let ea_bits = k.bits + pa.as_ref().map_or(0, |p| p.bits);
    let eb_bits = k.bits + pb.as_ref().map_or(0, |p| p.bits);
    for n in 0..=max_n {
        for m in 0..=max_n {
            if n + m == 0 {
                continue;
            }
            let ret_el = if has_assoc { format!("(bool, {ea}, {eb})") } else { format!("(bool, {ea})") };
            let src = format!(
                "{}{}pub fn main(a: [{ea}; {n}], b: [{eb}; {m}]) -> [{ret_el}; const {{ {n}usize + {m}usize - 1usize }}] {{ join(a, b) }}",
                k.defs,
                all_defs(&[pa.as_ref(), pb.as_ref()])
            );
            let c = match std::panic::catch_unwind(|| compile(&src)) {
                Ok(Ok(c)) => c,
                Ok(Err(e)) => {
                    failures.push(format!("n={n} m={m}: compile error {}", e.prettify(&src)));
                    continue;
                }
                Err(_) => {
                    failures.push(format!("n={n} m={m}: compile panicked: {src}"));
                    continue;
                }
            };
            for _ in 0..iters {
                let (Some(ka), Some(kb)) = (
                    gen_keys(&mut rng, n, k.card, strict, range),
                    gen_keys(&mut rng, m, k.card, strict, range),
                ) else {
                    continue;
                };
                let a = mk_elems(&mut rng, &ka, &k, pa.as_ref(), false);
                let b = mk_elems(&mut rng, &kb, &k, pb.as_ref(), false);
                let la = lit_arr(&a.iter().map(|e| e.lit.clone()).collect::<Vec<_>>());
                let lb = lit_arr(&b.iter().map(|e| e.lit.clone()).collect::<Vec<_>>());
                let r = std::panic::catch_unwind(std::panic::AssertUnwindSafe(|| run(&c, &[la.clone(), lb.clone()])));
                match r {
                    Ok(Ok(out)) => {
                        if let Err(e) = check_join_func(&out, &a, &b, has_assoc, ea_bits, eb_bits) {
                            failures.push(format!("n={n} m={m} a={la} b={lb}: {e}\n   src: {src}"));
                            break;
                        }
                    }
                    Ok(Err(e)) => {
                        failures.push(format!("n={n} m={m} a={la} b={lb}: eval error {e}"));
                        break;
                    }
                    Err(_) => {
                        failures.push(format!("n={n} m={m} a={la} b={lb}: eval panicked"));
                        break;
                    }
                }
            }
        }
    }
    failures
}

fn report(name: &str, f: Vec<String>) -> usize {
    println!("=== {name}: {} failures", f.len());
    for x in f.iter().take(6) {
        println!("  {x}");
    }
    f.len()
}

#[test]
fn join_func_sweeps() {
    let mut total = 0;
    // zero-one principle: bool keys, non-strict (so duplicates too), all sizes
    total += report("bool key / u8,u16 payload", sweep_join_func(boolean(), Some(uint("u8", 8)), Some(uint("u16", 16)), 9, 40, 2, false));
    total += report("bool key strict", sweep_join_func(boolean(), Some(uint("u8", 8)), Some(uint("u8", 8)), 3, 40, 2, true));
    total += report("bool key no payload", sweep_join_func(boolean(), None, None, 9, 30, 2, false));
    total += report("u8 key small range dup", sweep_join_func(uint("u8", 8), Some(uint("u16", 16)), Some(uint("u8", 8)), 9, 40, 6, false));
    total += report("u8 key strict", sweep_join_func(uint("u8", 8), Some(uint("u16", 16)), Some(boolean()), 9, 40, 12, true));
    total += report("u8 key full range strict", sweep_join_func(uint("u8", 8), Some(unit()), Some(uint("u64", 64)), 7, 40, 256, true));
    total += report("u8 no payload", sweep_join_func(uint("u8", 8), None, None, 9, 40, 10, false));
    total += report("u16 key", sweep_join_func(uint("u16", 16), Some(uint("u8", 8)), Some(uint("u8", 8)), 6, 30, 1 << 16, true));
    total += report("u32 key", sweep_join_func(uint("u32", 32), Some(uint("u8", 8)), Some(unit()), 5, 30, 8, true));
    total += report("u64 key", sweep_join_func(uint("u64", 64), Some(boolean()), Some(uint("u32", 32)), 5, 30, u64::MAX, true));
    total += report("usize key", sweep_join_func(uint("usize", 32), None, None, 5, 30, 9, false));
    total += report("pair key", sweep_join_func(pair_u8(), Some(uint("u8", 8)), Some(uint("u8", 8)), 5, 30, 600, true));
    total += report("arr key", sweep_join_func(arr_u8_2(), Some(uint("u8", 8)), Some(uint("u16", 16)), 5, 30, 600, true));
    total += report("arr key nopayload", sweep_join_func(arr_u8_2(), None, None, 5, 30, 600, true));
    total += report("struct key", sweep_join_func(strukt(), Some(uint("u8", 8)), Some(uint("u16", 16)), 5, 30, 512, true));
    total += report("struct key nopayload", sweep_join_func(strukt(), None, None, 5, 30, 20, false));
    total += report("enum key", sweep_join_func(enm(), Some(uint("u8", 8)), Some(uint("u16", 16)), 5, 30, 259, true));
    total += report("enum key nopayload", sweep_join_func(enm(), None, None, 5, 30, 259, false));
    total += report("unit key", sweep_join_func(unit(), Some(uint("u8", 8)), Some(uint("u16", 16)), 4, 5, 1, false));
    total += report("payload struct/enum", sweep_join_func(uint("u8", 8), Some(strukt()), Some(enm()), 4, 30, 6, true));
    assert_eq!(total, 0);
}

fn sweep_join_loop(k: Ty, pa: Ty, pb: Ty, max_n: usize, iters: usize, range: u64, strict: bool) -> Vec<String> {
    let mut failures = vec![];
    let mut rng = Rng(0xfeed_beef_1234_5679);
    let ea = elem_ty(&k, Some(&pa));
    let eb = elem_ty(&k, Some(&pb));
    let ea_bits = k.bits + pa.bits;
    let eb_bits = k.bits + pb.bits;
    for n in 0..=max_n {
        for m in 0..=max_n {
            if n + m == 0 {
                continue;
            }
            let l = n + m;
            let src = format!(
                "{}{}pub fn main(a: [{ea}; {n}], b: [{eb}; {m}], z: [(bool, {ea}, {eb}); {l}]) -> [(bool, {ea}, {eb}); {l}] {{
    let mut out = z;
    let mut i = 0usize;
    for (x, y) in join_iter(a, b) {{
        out[i] = (true, x, y);
        i += 1;
    }}
    out
}}",
                k.defs,
                all_defs(&[Some(&pa), Some(&pb)])
            );
            let c = match std::panic::catch_unwind(|| compile(&src)) {
                Ok(Ok(c)) => c,
                Ok(Err(e)) => {
                    failures.push(format!("n={n} m={m}: compile error {}", e.prettify(&src)));
                    continue;
                }
                Err(_) => {
                    failures.push(format!("n={n} m={m}: compile panicked: {src}"));
                    continue;
                }
            };
            let zk = (k.enc)(0).0;
            let z = format!("[(false, ({zk}, {}), ({zk}, {})); {l}]", (pa.enc)(0).0, (pb.enc)(0).0);
            for _ in 0..iters {
                let (Some(ka), Some(kb)) = (
                    gen_keys(&mut rng, n, k.card, strict, range),
                    gen_keys(&mut rng, m, k.card, strict, range),
                ) else {
                    continue;
                };
                let a = mk_elems(&mut rng, &ka, &k, Some(&pa), false);
                let b = mk_elems(&mut rng, &kb, &k, Some(&pb), false);
                let la = lit_arr(&a.iter().map(|e| e.lit.clone()).collect::<Vec<_>>());
                let lb = lit_arr(&b.iter().map(|e| e.lit.clone()).collect::<Vec<_>>());
                let r = std::panic::catch_unwind(std::panic::AssertUnwindSafe(|| run(&c, &[la.clone(), lb.clone(), z.clone()])));
                let out = match r {
                    Ok(Ok(out)) => out,
                    Ok(Err(e)) => {
                        failures.push(format!("n={n} m={m} a={la} b={lb}: eval error {e}"));
                        break;
                    }
                    Err(_) => {
                        failures.push(format!("n={n} m={m} a={la} b={lb}: eval panicked"));
                        break;
                    }
                };
                let entry = 1 + ea_bits + eb_bits;
                assert_eq!(out.len(), entry * l);
                // expected: each common key once in ascending order
                let mut common: Vec<u64> = ka.iter().copied().filter(|x| kb.contains(x)).collect();
                common.dedup();
                let mut err = None;
                for i in 0..l {
                    let e = &out[i * entry..(i + 1) * entry];
                    if i < common.len() {
                        let key = common[i];
                        let ok = e[0]
                            && a.iter().any(|x| x.key == key && x.bits == e[1..1 + ea_bits])
                            && b.iter().any(|x| x.key == key && x.bits == e[1 + ea_bits..]);
                        if !ok {
                            err = Some(format!("iteration {i} is not the pair for key index {key}"));
                            break;
                        }
                    } else if e.iter().any(|x| *x) {
                        err = Some(format!("extra iteration {i} (only {} common keys)", common.len()));
                        break;
                    }
                }
                if let Some(e) = err {
                    failures.push(format!("n={n} m={m} a={la} b={lb}: {e}\n  src: {src}"));
                    break;
                }
            }
        }
    }
    failures
}

#[test]
fn join_loop_sweeps() {
    let mut total = 0;
    total += report("loop bool key dup", sweep_join_loop(boolean(), uint("u8", 8), uint("u16", 16), 8, 30, 2, false));
    total += report("loop bool key strict", sweep_join_loop(boolean(), uint("u8", 8), uint("u16", 16), 2, 30, 2, true));
    total += report("loop u8 key strict", sweep_join_loop(uint("u8", 8), uint("u16", 16), boolean(), 8, 30, 12, true));
    total += report("loop u8 key dup", sweep_join_loop(uint("u8", 8), uint("u16", 16), uint("u8", 8), 8, 30, 6, false));
    total += report("loop u8 key full", sweep_join_loop(uint("u8", 8), unit(), uint("u64", 64), 6, 30, 256, true));
    total += report("loop u16 key", sweep_join_loop(uint("u16", 16), unit(), unit(), 6, 30, 10, true));
    total += report("loop u64 key", sweep_join_loop(uint("u64", 64), boolean(), uint("u8", 8), 5, 30, u64::MAX, true));
    total += report("loop pair key", sweep_join_loop(pair_u8(), uint("u8", 8), uint("u8", 8), 5, 30, 600, true));
    total += report("loop arr key", sweep_join_loop(arr_u8_2(), uint("u8", 8), uint("u8", 8), 5, 30, 600, true));
    total += report("loop struct key", sweep_join_loop(strukt(), uint("u8", 8), enm(), 5, 30, 512, true));
    total += report("loop enum key", sweep_join_loop(enm(), strukt(), uint("u8", 8), 5, 30, 259, true));
    total += report("loop unit key", sweep_join_loop(unit(), uint("u8", 8), uint("u8", 8), 1, 10, 1, true));
    total += report("loop unit key dup", sweep_join_loop(unit(), uint("u8", 8), uint("u8", 8), 3, 10, 1, false));
    assert_eq!(total, 0);
}

fn try_prg(src: &str, args: &[&str]) {
    println!("--- {src}");
    let c = match std::panic::catch_unwind(|| compile(src)) {
        Ok(Ok(c)) => c,
        Ok(Err(e)) => {
            println!("compile error: {}", e.prettify(src));
            return;
        }
        Err(_) => {
            println!("COMPILE PANICKED");
            return;
        }
    };
    let args: Vec<String> = args.iter().map(|s| s.to_string()).collect();
    let r = std::panic::catch_unwind(std::panic::AssertUnwindSafe(|| {
        let mut eval = c.evaluator();
        for a in &args {
            eval.parse_literal(a).map_err(|e| format!("parse {a}: {e:?}"))?;
        }
        let out = eval.run().map_err(|e| format!("{e:?}"))?;
        out.into_literal().map(|l| l.to_string()).map_err(|e| format!("{e:?}"))
    }));
    println!("=> {r:?}");
}

#[test]
fn explore_literals() {
    try_prg("pub fn main(_d: bool, b: [u8; 3]) -> [(bool, u8); const { 3usize + 3usize - 1usize }] { let a = [1, 2, 3]; join(a, b) }", &["true", "[2, 3, 4]"]);
    try_prg("pub fn main(_d: bool, b: [u8; 3]) -> [(bool, u8); const { 3usize + 3usize - 1usize }] { join([1, 2, 3], b) }", &["true", "[2, 3, 4]"]);
    try_prg("pub fn main(_d: bool, b: [u8; 3]) -> [(bool, u8); const { 3usize + 3usize - 1usize }] { join(b, [1, 2, 3]) }", &["true", "[2, 3, 4]"]);
    try_prg("pub fn main(_d: bool, b: [u8; 3]) -> [(bool, u8); const { 3usize + 3usize - 1usize }] { join([1u8, 2, 3], b) }", &["true", "[2, 3, 4]"]);
    try_prg("pub fn main(_d: bool, b: [u8; 3]) -> [(bool, u8); const { 3usize + 3usize - 1usize }] { join([1u8, 2u8, 3u8], b) }", &["true", "[2, 3, 4]"]);
    try_prg("pub fn main(_d: bool, b: [(u8, u16); 3]) -> u16 { let mut r = 0u16; for ((_, x), (_, y)) in join_iter([(1, 10), (2, 20), (3, 30)], b) { r += x + y; } r }", &["true", "[(2, 1), (3, 2), (4, 4)]"]);
    try_prg("pub fn main(_d: bool, b: [(u8, u16); 3]) -> u16 { let a = [(1, 10), (2, 20), (3, 30)]; let mut r = 0u16; for ((_, x), (_, y)) in join_iter(a, b) { r += x + y; } r }", &["true", "[(2, 1), (3, 2), (4, 4)]"]);
    try_prg("pub fn main(_d: bool, b: [(u8, u16); 3]) -> u16 { let a = [(1u8, 10), (2u8, 20), (3u8, 30)]; let mut r = 0u16; for ((_, x), (_, y)) in join_iter(a, b) { r += (x as u16) + y; } r }", &["true", "[(2, 1), (3, 2), (4, 4)]"]);
    try_prg("pub fn main(_d: bool, b: [(u8, u16); 3]) -> u16 { let a = [(1u8, 10u16), (2u8, 20u16), (3u8, 30u16)]; let mut r = 0u16; for ((_, x), (_, y)) in join_iter(a, b) { r += x + y; } r }", &["true", "[(2, 1), (3, 2), (4, 4)]"]);
    try_prg("pub fn main(_d: bool, b: [u8; 3]) -> [(bool, u8); const { 3usize + 3usize - 1usize }] { join(1u8..4u8, b) }", &["true", "[2, 3, 4]"]);
    try_prg("pub fn main(_d: bool, b: [u8; 3]) -> [(bool, u8); const { 3usize + 3usize - 1usize }] { join(1..4, b) }", &["true", "[2, 3, 4]"]);
    try_prg("pub fn main(_d: bool, b: [u8; 3]) -> [(bool, u8); const { 3usize + 3usize - 1usize }] { join(b, 1..4) }", &["true", "[2, 3, 4]"]);
    try_prg("pub fn main(_d: bool, b: [u8; 3]) -> [(bool, u8); const { 3usize + 3usize - 1usize }] { let a = 1..4; join(a, b) }", &["true", "[2, 3, 4]"]);
}

#[test]
fn explore2() {
    try_prg("pub fn main(b: [u8; 3]) -> u8 { b[0] }", &["[2, 3, 4]"]);
    try_prg("pub fn main(b: [u8; 3]) -> [(bool, u8); const { 3usize + 3usize - 1usize }] { join(b, b) }", &["[2, 3, 4]"]);
    try_prg("pub fn main(b: [u8; 3]) -> [(bool, u8); const { 3usize + 3usize - 1usize }] { let a = [1u8, 2u8, 3u8]; join(a, b) }", &["[2, 3, 4]"]);
}

#[test]
fn explore3() {
    let c = compile("pub fn main(b: [u8; 3]) -> u8 { b[0] }").unwrap();
    println!("parties {}", c.circuit.parties());
    let mut eval = c.evaluator();
    println!("{:?}", eval.parse_literal("[2, 3, 4]"));
    println!("{:?}", eval.run().map(|_| ()));
}

#[test]
fn join_loop_panics() {
    let mut rng = Rng(0xabcdef0123456789);
    let mut failures = vec![];
    for n in 1..=6usize {
        for m in 1..=6usize {
            let src = format!(
                "pub fn main(a: [(u8, u8); {n}], b: [(u8, u8); {m}]) -> u16 {{
    let mut acc = 0u16;
    for ((_, p), (_, q)) in join_iter(a, b) {{
        acc = acc * 3u16 + ((100u8 / p) as u16);
        acc = acc + ((200u8 / q) as u16);
    }}
    acc
}}"
            );
            let c = compile(&src).unwrap();
            for _ in 0..200 {
                let ka = gen_keys(&mut rng, n, 256, true, 8).unwrap();
                let kb = gen_keys(&mut rng, m, 256, true, 8).unwrap();
                let a: Vec<(u64, u64)> = ka.iter().map(|k| (*k, rng.below(3))).collect();
                let b: Vec<(u64, u64)> = kb.iter().map(|k| (*k, rng.below(3))).collect();
                // model
                let mut acc: u64 = 0;
                let mut exp: Result<u64, String> = Ok(0);
                for (k, p) in &a {
                    if let Some((_, q)) = b.iter().find(|(k2, _)| k2 == k) {
                        if *p == 0 {
                            exp = Err("DivByZero line 3".into());
                            break;
                        }
                        acc = acc * 3 + 100 / p;
                        if *q == 0 {
                            exp = Err("DivByZero line 4".into());
                            break;
                        }
                        acc = acc + 200 / q;
                        if acc > 65535 {
                            exp = Err("Overflow".into());
                            break;
                        }
                        exp = Ok(acc);
                    }
                }
                let la = lit_arr(&a.iter().map(|(k, p)| format!("({k}, {p})")).collect::<Vec<_>>());
                let lb = lit_arr(&b.iter().map(|(k, p)| format!("({k}, {p})")).collect::<Vec<_>>());
                let mut eval = c.evaluator();
                eval.parse_literal(&la).unwrap();
                eval.parse_literal(&lb).unwrap();
                let got = match u16::try_from(eval.run().unwrap()) {
                    Ok(v) => Ok(v as u64),
                    Err(garble_lang::eval::EvalError::Panic(p)) => {
                        if format!("{:?}", p.reason) == "Overflow" { Err("Overflow".to_string()) } else {
                        Err(format!("{:?} line {}", p.reason, p.panicked_at.start.0)) }
                    }
                    Err(e) => Err(format!("{e:?}")),
                };
                if got != exp {
                    failures.push(format!("n={n} m={m} a={la} b={lb}: got {got:?} expected {exp:?}"));
                    break;
                }
            }
        }
    }
    report("join loop panics", failures.clone());
    assert!(failures.is_empty());
}

fn rand_rows(rng: &mut Rng, n: usize, range: u64, pmax: u64) -> Vec<(u64, u64)> {
    gen_keys(rng, n, 256, true, range).unwrap().into_iter().map(|k| (k, rng.below(pmax))).collect()
}
fn rows_lit(r: &[(u64, u64)]) -> String {
    lit_arr(&r.iter().map(|(k, p)| format!("({k}, {p})")).collect::<Vec<_>>())
}
fn ref_join(a: &[(u64, u64)], b: &[(u64, u64)]) -> Vec<(u64, u64, u64)> {
    let mut v = vec![];
    for (k, p) in a {
        if let Some((_, q)) = b.iter().find(|(k2, _)| k2 == k) {
            v.push((*k, *p, *q));
        }
    }
    v
}
fn eval_u(c: &GarbleProgram, args: &[String]) -> Result<u64, String> {
    let out = run(c, args)?;
    Ok(out.iter().fold(0, |acc, &x| (acc << 1) | x as u64))
}

#[test]
fn nested_combos() {
    let mut rng = Rng(0x9999_aaaa_bbbb_cccd);
    let mut fails = 0;
    // F1 nested join loops
    for (n, m, o, p_) in [(1, 1, 1, 1), (2, 3, 3, 2), (3, 2, 1, 4), (4, 4, 3, 3), (5, 1, 2, 2)] {
        let src = format!(
            "pub fn main(a: [(u8, u32); {n}], b: [(u8, u32); {m}], c: [(u8, u32); {o}], d: [(u8, u32); {p_}]) -> u32 {{
    let mut acc = 0u32;
    for ((_, p), (_, q)) in join_iter(a, b) {{
        acc = acc + 1000u32;
        for ((_, r), (_, s)) in join_iter(c, d) {{
            acc = acc * 3u32 + p + q + r + s;
        }}
    }}
    acc
}}"
        );
        let cc = compile(&src).unwrap();
        for _ in 0..100 {
            let (a, b, c, d) = (rand_rows(&mut rng, n, 6, 5), rand_rows(&mut rng, m, 6, 5), rand_rows(&mut rng, o, 6, 5), rand_rows(&mut rng, p_, 6, 5));
            let mut acc = 0u64;
            for (_, p, q) in ref_join(&a, &b) {
                acc += 1000;
                for (_, r, s) in ref_join(&c, &d) {
                    acc = acc * 3 + p + q + r + s;
                }
            }
            let got = eval_u(&cc, &[rows_lit(&a), rows_lit(&b), rows_lit(&c), rows_lit(&d)]);
            if got != Ok(acc) {
                println!("F1 FAIL {n} {m} {o} {p_}: a={a:?} b={b:?} c={c:?} d={d:?} got {got:?} exp {acc}");
                fails += 1;
                break;
            }
        }
    }
    // F3 shadowing
    for (n, m) in [(1, 1), (2, 2), (3, 2), (3, 5), (4, 4)] {
        let src = format!(
            "pub fn main(a: [(u8, u16); {n}], b: [(u8, u16); {m}]) -> u16 {{
    let mut p = 5u16;
    let mut acc = 0u16;
    for ((_, p), (_, acc2)) in join_iter(a, b) {{
        let acc3 = acc;
        acc = acc3 * 2u16 + p + acc2;
        let acc = 1000u16;
        let mut p = acc + 1u16;
        p = p + 1u16;
    }}
    p = p + 1u16;
    acc + p
}}"
        );
        let cc = compile(&src).unwrap();
        for _ in 0..100 {
            let (a, b) = (rand_rows(&mut rng, n, 6, 5), rand_rows(&mut rng, m, 6, 5));
            let mut acc = 0u64;
            for (_, p, q) in ref_join(&a, &b) {
                acc = acc * 2 + p + q;
            }
            acc += 6;
            let got = eval_u(&cc, &[rows_lit(&a), rows_lit(&b)]);
            if got != Ok(acc) {
                println!("F3 FAIL {n} {m}: a={a:?} b={b:?} got {got:?} exp {acc}");
                fails += 1;
                break;
            }
        }
    }
    // F4 body modifies the joined arrays; F5 index assignment with payload index
    for (n, m) in [(1, 1), (2, 2), (3, 2), (3, 5), (4, 4)] {
        let src = format!(
            "pub fn main(a0: [(u8, u16); {n}], b0: [(u8, u16); {m}]) -> u16 {{
    let mut a = a0;
    let mut b = b0;
    let mut out = [0u16; 4];
    for ((k, p), (_, q)) in join_iter(a, b) {{
        a[0] = (k, 77u16);
        b[0] = (k, 99u16);
        out[p as usize] = out[p as usize] + q + 1u16;
    }}
    out[0] + out[1] * 5u16 + out[2] * 25u16 + out[3] * 125u16 + a[0].1 + b[0].1
}}"
        );
        let cc = compile(&src).unwrap();
        for _ in 0..200 {
            let (a, b) = (rand_rows(&mut rng, n, 6, 6), rand_rows(&mut rng, m, 6, 4));
            let mut out = [0u64; 4];
            let mut exp: Result<u64, String> = Ok(0);
            let j = ref_join(&a, &b);
            for (_, p, q) in &j {
                if *p >= 4 {
                    exp = Err("oob".into());
                    break;
                }
                out[*p as usize] += q + 1;
            }
            if exp.is_ok() {
                let (a0, b0) = if j.is_empty() { (a[0].1, b[0].1) } else { (77, 99) };
                exp = Ok(out[0] + out[1] * 5 + out[2] * 25 + out[3] * 125 + a0 + b0);
            }
            let got = eval_u(&cc, &[rows_lit(&a), rows_lit(&b)]);
            let ok = match (&got, &exp) {
                (Ok(x), Ok(y)) => x == y,
                (Err(e), Err(_)) => e.contains("OutOfBounds"),
                _ => false,
            };
            if !ok {
                println!("F4 FAIL {n} {m}: a={a:?} b={b:?} got {got:?} exp {exp:?}");
                fails += 1;
                break;
            }
        }
    }
    // F7 function calls with join loop and join builtin, called twice
    {
        let src = "
fn f(a: [(u8, u16); 3], b: [(u8, u16); 2]) -> u16 {
    let mut acc = 0u16;
    for ((_, p), (_, q)) in join_iter(a, b) { acc = acc * 3u16 + p + q * 2u16; }
    acc
}
fn g(a: [(u8, u16); 3], b: [(u8, u16); 2]) -> u16 {
    let mut acc = 0u16;
    for (f, (_, p), (_, q)) in join(a, b) { if f { acc = acc + p + q * 2u16; } else { acc = acc + p + q; } }
    acc
}
pub fn main(a: [(u8, u16); 3], b: [(u8, u16); 2], c: [(u8, u16); 3]) -> u16 {
    let x = f(a, b);
    let y = f(c, b);
    let z = g(a, b);
    let mut w = 0u16;
    if x > y { w = f(c, b) + g(c, b); } else { w = g(a, b); }
    x + y * 100u16 + z + w
}";
        let cc = compile(src).unwrap();
        let f = |a: &[(u64, u64)], b: &[(u64, u64)]| ref_join(a, b).iter().fold(0u64, |acc, (_, p, q)| acc * 3 + p + q * 2);
        let g = |a: &[(u64, u64)], b: &[(u64, u64)]| ref_join(a, b).iter().fold(0u64, |acc, (_, p, q)| acc + p + q * 2);
        for _ in 0..300 {
            let (a, b, c) = (rand_rows(&mut rng, 3, 5, 5), rand_rows(&mut rng, 2, 5, 5), rand_rows(&mut rng, 3, 5, 5));
            let (x, y, z) = (f(&a, &b), f(&c, &b), g(&a, &b));
            let w = if x > y { f(&c, &b) + g(&c, &b) } else { g(&a, &b) };
            let exp = x + y * 100 + z + w;
            let got = eval_u(&cc, &[rows_lit(&a), rows_lit(&b), rows_lit(&c)]);
            if got != Ok(exp) {
                println!("F7 FAIL: a={a:?} b={b:?} c={c:?} got {got:?} exp {exp}");
                fails += 1;
                break;
            }
        }
    }
    assert_eq!(fails, 0);
}

#[test]
fn explore_untyped() {
    try_prg("pub fn main(_d: bool, c: u32) -> u32 { let a = [(1, 10), (2, 20), (7, 30)]; let b = [(2, 5), (3, 6), (7, 1)]; let mut acc = c; for ((_, x), (_, y)) in join_iter(a, b) { acc = acc * 10 + x + y; } acc }", &["true", "0"]);
    try_prg("pub fn main(_d: bool, c: u8) -> u8 { let a = [(1, 10), (2, 20), (7, 30)]; let b = [(2, 5), (3, 6), (7, 1)]; let mut acc = c; for ((_, x), (_, y)) in join_iter(a, b) { acc = acc * 2 + x + y; } acc }", &["true", "0"]);
    try_prg("pub fn main(_d: bool, c: u8) -> u8 { let mut a = [(1, 10), (2, 20), (7, 30)]; let b = [(2, 5), (3, 6), (7, 1)]; let mut acc = c; for ((_, x), (_, y)) in join_iter(a, b) { acc = acc * 2 + x + y; } acc }", &["true", "0"]);
    try_prg("pub fn main(_d: bool, c: u8) -> u8 { let a = [(1, 10), (2, 20), (7, 30)]; let b = [(2u8, 5), (3u8, 6), (7u8, 1)]; let mut acc = c; for ((_, x), (_, y)) in join_iter(a, b) { acc = acc * 2 + x + y; } acc }", &["true", "0"]);
    try_prg("pub fn main(_d: bool, c: u8) -> u8 { let a = [(1, 10), (2, 20), (7, 30)]; let k: u8 = a[0].0; let b = [(2, 5), (3, 6), (7, 1)]; let mut acc = c + k; for ((_, x), (_, y)) in join_iter(a, b) { acc = acc * 2 + x + y; } acc }", &["true", "0"]);
    try_prg("pub fn main(_d: bool, c: u8) -> [(bool, (u32, u32), (u32, u32)); const { 3usize + 3usize - 1usize }] { let a = [(1, 10), (2, 20), (7, 30)]; let b = [(2, 5), (3, 6), (7, 1)]; join(a, b) }", &["true", "0"]);
    try_prg("pub fn main(_d: bool, c: u8) -> [(bool, (u8, u8), (u8, u8)); const { 3usize + 3usize - 1usize }] { let a = [(1, 10), (2, 20), (7, 30)]; let b = [(2, 5), (3, 6), (7, 1)]; join(a, b) }", &["true", "0"]);
    try_prg("pub fn main(_d: bool, c: u8) -> [(bool, (u8, u8), (u8, u8)); const { 3usize + 3usize - 1usize }] { join([(1, 10), (2, 20), (7, 30)], [(2, 5), (3, 6), (7, 1)]) }", &["true", "0"]);
    try_prg("pub fn main(_d: bool, c: u8) -> [(bool, u8); const { 3usize + 3usize - 1usize }] { join([1, 2, 7], [2, 3, 7]) }", &["true", "0"]);
    try_prg("pub fn main(_d: bool, c: u8) -> [(bool, u8); const { 3usize + 3usize - 1usize }] { join(1..4, 2..5) }", &["true", "0"]);
    try_prg("pub fn main(_d: bool, c: u8) -> u8 { let mut acc = c; for (f, k) in join(1..4, 2..5) { if f { acc = acc * 10 + k; } } acc }", &["true", "0"]);
    try_prg("pub fn main(_d: bool, c: u8) -> u8 { let mut acc = c; for (f, k) in join([1, 2, 3], [2, 3, 4]) { if f { acc = acc * 10 + k; } } acc }", &["true", "0"]);
    try_prg("pub fn main(_d: bool, c: u8) -> u8 { let mut acc = c; for (f, k) in join([1; 3], [1; 2]) { if f { acc = acc * 10 + k; } } acc }", &["true", "0"]);
}

#[test]
fn zero_one_exhaustive() {
    let mut fails = vec![];
    let k = boolean();
    let p = uint("u8", 8);
    let sizes: Vec<(usize, usize)> = {
        let mut v = vec![];
        for n in 1..=12 { for m in 1..=12 { v.push((n, m)); } }
        v.extend([(16, 16), (17, 15), (15, 17), (31, 2), (1, 40), (40, 1), (33, 31)]);
        v
    };
    let mut rng = Rng(77);
    for (n, m) in sizes {
        let src = format!("pub fn main(a: [(bool, u8); {n}], b: [(bool, u8); {m}]) -> [(bool, (bool, u8), (bool, u8)); const {{ {n}usize + {m}usize - 1usize }}] {{ join(a, b) }}");
        let c = compile(&src).unwrap();
        'outer: for za in 0..=n {
            for zb in 0..=m {
                let ka: Vec<u64> = (0..n).map(|i| (i >= za) as u64).collect();
                let kb: Vec<u64> = (0..m).map(|i| (i >= zb) as u64).collect();
                let a = mk_elems(&mut rng, &ka, &k, Some(&p), false);
                let b = mk_elems(&mut rng, &kb, &k, Some(&p), false);
                let la = lit_arr(&a.iter().map(|e| e.lit.clone()).collect::<Vec<_>>());
                let lb = lit_arr(&b.iter().map(|e| e.lit.clone()).collect::<Vec<_>>());
                let out = run(&c, &[la.clone(), lb.clone()]).unwrap();
                if let Err(e) = check_join_func(&out, &a, &b, true, 9, 9) {
                    fails.push(format!("n={n} m={m} a={la} b={lb}: {e}"));
                    break 'outer;
                }
            }
        }
    }
    report("zero-one exhaustive", fails.clone());
    assert!(fails.is_empty());
}

#[test]
fn big_sizes_u8() {
    let mut fails = vec![];
    fails.extend(sweep_join_func_sizes(&[(16, 16), (13, 19), (1, 31), (32, 1), (20, 45), (64, 64), (65, 64)]));
    report("big sizes", fails.clone());
    assert!(fails.is_empty());
}

fn sweep_join_func_sizes(sizes: &[(usize, usize)]) -> Vec<String> {
    let mut fails = vec![];
    let k = uint("u8", 8);
    let p = uint("u16", 16);
    let mut rng = Rng(4242);
    for &(n, m) in sizes {
        let src = format!("pub fn main(a: [(u8, u16); {n}], b: [(u8, u16); {m}]) -> [(bool, (u8, u16), (u8, u16)); const {{ {n}usize + {m}usize - 1usize }}] {{ join(a, b) }}");
        let c = compile(&src).unwrap();
        let src2 = format!("pub fn main(a: [(u8, u16); {n}], b: [(u8, u16); {m}]) -> u64 {{ let mut acc = 0u64; for ((_, p), (_, q)) in join_iter(a, b) {{ acc = (acc % 1000003u64) * 3u64 + (p as u64) + (q as u64) * 2u64; }} acc }}");
        let c2 = compile(&src2).unwrap();
        for it in 0..30 {
            let range = if it % 2 == 0 { 256 } else { (n.max(m) as u64 + 5).min(256) };
            let ka = gen_keys(&mut rng, n, 256, true, range).unwrap();
            let kb = gen_keys(&mut rng, m, 256, true, range).unwrap();
            let a = mk_elems(&mut rng, &ka, &k, Some(&p), false);
            let b = mk_elems(&mut rng, &kb, &k, Some(&p), false);
            let la = lit_arr(&a.iter().map(|e| e.lit.clone()).collect::<Vec<_>>());
            let lb = lit_arr(&b.iter().map(|e| e.lit.clone()).collect::<Vec<_>>());
            let out = run(&c, &[la.clone(), lb.clone()]).unwrap();
            if let Err(e) = check_join_func(&out, &a, &b, true, 24, 24) {
                fails.push(format!("n={n} m={m} a={la} b={lb}: {e}"));
                break;
            }
            let mut acc = 0u64;
            for x in &a {
                if let Some(y) = b.iter().find(|y| y.key == x.key) {
                    let pv = x.bits[8..].iter().fold(0u64, |s, &b| (s << 1) | b as u64);
                    let qv = y.bits[8..].iter().fold(0u64, |s, &b| (s << 1) | b as u64);
                    acc = (acc % 1000003) * 3 + pv + qv * 2;
                }
            }
            let got = eval_u(&c2, &[la.clone(), lb.clone()]);
            // overflow of u64 panics in garble; n, m small enough? 3^64 overflows: accept Err if model overflowed
            if got != Ok(acc) {
                fails.push(format!("loop n={n} m={m} a={la} b={lb}: got {got:?} exp {acc}"));
                break;
            }
        }
    }
    fails
}

#[test]
fn consts_and_register() {
    use garble_lang::{compile_with_constants, garble_consts};
    let mut fails = vec![];
    let mut rng = Rng(31337);
    let k = uint("u8", 8);
    let p = uint("u16", 16);
    let prg_join = "
const ROWS_0: usize = PARTY_0::ROWS;
const ROWS_1: usize = PARTY_1::ROWS;
pub fn main(a: [(u8, u16); ROWS_0], b: [(u8, u16); ROWS_1]) -> [(bool, (u8, u16), (u8, u16)); const { ROWS_0 + ROWS_1 - 1usize }] {
    join(a, b)
}";
    let prg_loop = "
const ROWS_0: usize = PARTY_0::ROWS;
const ROWS_1: usize = PARTY_1::ROWS;
fn f(a: [(u8, u16); ROWS_0], b: [(u8, u16); ROWS_1]) -> u64 {
    let mut acc = 0u64;
    for ((_, p), (_, q)) in join_iter(a, b) { acc = (acc % 1000003u64) * 3u64 + (p as u64) + (q as u64) * 2u64; }
    acc
}
pub fn main(a: [(u8, u16); ROWS_0], b: [(u8, u16); ROWS_1]) -> u64 {
    f(a, b)
}";
    for n in 0..=6usize {
        for m in 0..=6usize {
            if n + m == 0 { continue; }
            let consts = garble_consts!("PARTY_0" => { "ROWS" => n }, "PARTY_1" => { "ROWS" => m });
            let mut c1 = match compile_with_constants(prg_join, consts.clone()) { Ok(c) => c, Err(e) => { fails.push(format!("n={n} m={m}: {}", e.prettify(prg_join))); continue; } };
            let mut c2 = match compile_with_constants(prg_loop, consts) { Ok(c) => c, Err(e) => { fails.push(format!("n={n} m={m}: {}", e.prettify(prg_loop))); continue; } };
            for reg in [false, true] {
                if reg { c1.circuit.to_register(); c2.circuit.to_register(); }
                for _ in 0..20 {
                    let ka = gen_keys(&mut rng, n, 256, true, 9).unwrap();
                    let kb = gen_keys(&mut rng, m, 256, true, 9).unwrap();
                    let a = mk_elems(&mut rng, &ka, &k, Some(&p), false);
                    let b = mk_elems(&mut rng, &kb, &k, Some(&p), false);
                    let la = lit_arr(&a.iter().map(|e| e.lit.clone()).collect::<Vec<_>>());
                    let lb = lit_arr(&b.iter().map(|e| e.lit.clone()).collect::<Vec<_>>());
                    match run(&c1, &[la.clone(), lb.clone()]) {
                        Ok(out) => if let Err(e) = check_join_func(&out, &a, &b, true, 24, 24) {
                            fails.push(format!("reg={reg} n={n} m={m} a={la} b={lb}: {e}"));
                            break;
                        },
                        Err(e) => { fails.push(format!("reg={reg} n={n} m={m} a={la} b={lb}: {e}")); break; }
                    }
                    let mut acc = 0u64;
                    for x in &a {
                        if let Some(y) = b.iter().find(|y| y.key == x.key) {
                            let pv = x.bits[8..].iter().fold(0u64, |s, &b| (s << 1) | b as u64);
                            let qv = y.bits[8..].iter().fold(0u64, |s, &b| (s << 1) | b as u64);
                            acc = (acc % 1000003) * 3 + pv + qv * 2;
                        }
                    }
                    let got = eval_u(&c2, &[la.clone(), lb.clone()]);
                    if got != Ok(acc) {
                        fails.push(format!("loop reg={reg} n={n} m={m} a={la} b={lb}: got {got:?} exp {acc}"));
                        break;
                    }
                }
            }
        }
    }
    report("consts/register", fails.clone());
    assert!(fails.is_empty());
}

#[test]
fn explore_zero_bits() {
    try_prg("pub fn main(x: u8, a: [((), ()); 1], b: [((), ()); 1]) -> u8 { let mut c = x; for _ in join_iter(a, b) { c = c + 1u8; } c }", &["5", "[((), ())]", "[((), ())]"]);
    try_prg("pub fn main(x: u8, a: [((), ()); 1], b: [((), ()); 1]) -> [(bool, ((), ()), ((), ())); const { 1usize + 1usize - 1usize }] { join(a, b) }", &["5", "[((), ())]", "[((), ())]"]);
    try_prg("pub fn main(x: u8, a: [((), ()); 2], b: [((), ()); 3]) -> [(bool, ((), ()), ((), ())); const { 2usize + 3usize - 1usize }] { join(a, b) }", &["5", "[((), ()); 2]", "[((), ()); 3]"]);
    try_prg("pub fn main(x: u8, a: [((), u8); 1], b: [((), ()); 1]) -> u8 { let mut c = x; for ((_, p), _) in join_iter(a, b) { c = c + p; } c }", &["5", "[((), 7)]", "[((), ())]"]);
    try_prg("pub fn main(x: u8, a: [(u8, ()); 2], b: [(u8, ()); 2]) -> u8 { let mut c = x; for _ in join_iter(a, b) { c = c + 1u8; } c }", &["5", "[(1, ()), (2, ())]", "[(0, ()), (2, ())]"]);
    try_prg("pub fn main(x: u8, a: [(((), u8), ()); 2], b: [(((), u8), bool); 2]) -> u8 { let mut c = x; for (_, (_, f)) in join_iter(a, b) { if f { c = c + 1u8; } else { c = c + 10u8; } } c }", &["5", "[(((), 1), ()), (((), 2), ())]", "[(((), 0), true), (((), 2), false)]"]);
    // empty struct key
    try_prg("struct S {} pub fn main(x: u8, a: [(S, u8); 1], b: [(S, u8); 1]) -> u8 { let mut c = x; for ((_, p), (_, q)) in join_iter(a, b) { c = c + p + q; } c }", &["5", "[(S {}, 1)]", "[(S {}, 2)]"]);
    // for-each over join of empty-bit... join result of a and b with n=1,m=0
    try_prg("pub fn main(x: u8, a: [u8; 1]) -> u8 { let b = [0u8; 0]; let mut c = x; for _ in join(a, b) { c = c + 1u8; } c }", &["5", "[1]"]);
    try_prg("pub fn main(x: u8, a: [(u8, u8); 1]) -> u8 { let b = [(0u8, 0u8); 0]; let mut c = x; for _ in join_iter(a, b) { c = c + 1u8; } c }", &["5", "[(1, 1)]"]);
    try_prg("pub fn main(x: u8, a: [(u8, u8); 1]) -> u8 { let b = [(0u8, 0u8); 0]; let mut c = x; for _ in join_iter(b, a) { c = c + 1u8; } c }", &["5", "[(1, 1)]"]);
    try_prg("pub fn main(x: u8, a: [(u8, u8); 1]) -> u8 { let b = [(0u8, 0u8); 0]; let mut c = x; for _ in join_iter(b, b) { c = c + 1u8; } c }", &["5", "[(1, 1)]"]);
}

#[test]
fn explore_typing() {
    let a = "[1, 3, 5]"; let b = "[3, 4]";
    try_prg("pub fn main(a: [u8; 3], b: [u8; 2], i: usize) -> (bool, u8) { let j = join(a, b); j[i] }", &[a, b, "3"]);
    try_prg("pub fn main(a: [u8; 3], b: [u8; 2], i: usize) -> (bool, u8) { let j = join(a, b); j[i] }", &[a, b, "4"]);
    try_prg("pub fn main(a: [u8; 3], b: [u8; 2], i: usize) -> (bool, u8) { join(a, b)[i] }", &[a, b, "3"]);
    try_prg("pub fn main(a: [u8; 3], b: [u8; 2], i: usize) -> u8 { let mut j = join(a, b); j[i] = (true, 9u8); let mut s = 0u8; for (f, k) in j { if f { s = s + k; } } s }", &[a, b, "0"]);
    try_prg("pub fn main(a: [u8; 3], b: [u8; 2], i: usize) -> u8 { let mut j = join(a, b); j[i] = (true, 9u8); let mut s = 0u8; for (f, k) in j { if f { s = s + k; } } s }", &[a, b, "4"]);
    try_prg("fn f(j: [(bool, u8); const { 3usize + 2usize - 1usize }]) -> u8 { let mut s = 0u8; for (f, k) in j { if f { s = s + k; } } s } pub fn main(a: [u8; 3], b: [u8; 2], i: usize) -> u8 { f(join(a, b)) }", &[a, b, "4"]);
    try_prg("fn f(j: [(bool, u8); 4]) -> u8 { let mut s = 0u8; for (f, k) in j { if f { s = s + k; } } s } pub fn main(a: [u8; 3], b: [u8; 2], i: usize) -> u8 { f(join(a, b)) }", &[a, b, "4"]);
    try_prg("pub fn main(a: [u8; 3], b: [u8; 2], i: usize) -> u8 { let j: [(bool, u8); 4] = join(a, b); 1u8 }", &[a, b, "4"]);
    try_prg("pub fn main(a: [u8; 3], b: [u8; 2], i: usize) -> bool { let j = join(a, b); let k = join(a, b); j == k }", &[a, b, "4"]);
    try_prg("pub fn main(a: [u8; 3], b: [u8; 2], i: usize) -> bool { let j = join(a, b); let k = join(b, a); j == k }", &[a, b, "4"]);
    try_prg("pub fn main(a: [u8; 3], b: [u8; 2], i: usize) -> u8 { let j = join(a, b); let k = if i == 0 { j } else { join(a, b) }; 1u8 }", &[a, b, "4"]);
    try_prg("pub fn main(a: [u8; 3], b: [u8; 2], i: usize) -> [(bool, (bool, u8), (bool, u8)); const { 3usize + 2usize - 1usize + 3usize + 2usize - 1usize - 1usize }] { join(join(a, b), join(a, b)) }", &[a, b, "4"]);
    try_prg("pub fn main(a: [u8; 3], b: [u8; 2], i: usize) -> u8 { let mut s = 0u8; for (f, (f1, k1), (f2, k2)) in join(join(a, b), join(a, b)) { if f { s = s + k1 + k2; } } s }", &[a, b, "4"]);
    try_prg("pub fn main(a: [u8; 3], b: [u8; 2], i: usize) -> u8 { let mut s = 0u8; for ((f1, k1), (f2, k2)) in join_iter(join(a, b), join(a, b)) { s = s + k1 + k2; } s }", &[a, b, "4"]);
    try_prg("pub fn main(a: [(u8, u8); 3], b: [u8; 2], i: usize) -> u8 { let mut s = 0u8; for x in join(a, b) { s = s + 1u8; } s }", &["[(1, 1), (2, 2), (3, 3)]", b, "4"]);
    try_prg("pub fn main(a: [u8; 3], b: [u8; 2], i: usize) -> u8 { let mut s = 0u8; for x in join(a, b, b) { s = s + 1u8; } s }", &[a, b, "4"]);
    try_prg("pub fn main(a: [u8; 3], b: [u8; 2], i: usize) -> u8 { let mut s = 0u8; for x in join(a) { s = s + 1u8; } s }", &[a, b, "4"]);
    try_prg("pub fn main(a: [u8; 3], b: [u8; 2], i: usize) -> u8 { let mut s = 0u8; for x in join_iter(a, b) { s = s + 1u8; } s }", &[a, b, "4"]);
    try_prg("pub fn main(a: [u8; 3], b: [u8; 2], i: usize) -> u8 { let x = join_iter(a, b); 1u8 }", &[a, b, "4"]);
    try_prg("pub fn main(a: [u8; 3], b: [u16; 2], i: usize) -> u8 { let x = join(a, b); 1u8 }", &[a, b, "4"]);
    try_prg("pub fn main(a: [u8; 3], b: u8, i: usize) -> u8 { let x = join(a, b); 1u8 }", &[a, "1", "4"]);
    try_prg("pub fn main(a: [i8; 3], b: [i8; 2], i: usize) -> [(bool, i8); const { 3usize + 2usize - 1usize }] { join(a, b) }", &["[-3, -1, 2]", "[-1, 2]", "4"]);
}

#[test]
fn constant_arrays() {
    let mut fails = vec![];
    let mut rng = Rng(555);
    let k = uint("u8", 8);
    let p = uint("u16", 16);
    for n in 1..=6usize {
        for m in 1..=6usize {
            for mode in 0..3 {
                for _ in 0..6 {
                    let strict = rng.below(2) == 0;
                    let ka = gen_keys(&mut rng, n, 256, strict, 7).unwrap();
                    let kb = gen_keys(&mut rng, m, 256, strict, 7).unwrap();
                    let a = mk_elems(&mut rng, &ka, &k, Some(&p), false);
                    let b = mk_elems(&mut rng, &kb, &k, Some(&p), false);
                    let typed = |e: &Elem| {
                        // "(k, p)" -> "(ku8, pu16)"
                        let s = e.lit.trim_matches(|c| c == '(' || c == ')');
                        let mut it = s.split(", ");
                        format!("({}u8, {}u16)", it.next().unwrap(), it.next().unwrap())
                    };
                    let la = lit_arr(&a.iter().map(|e| e.lit.clone()).collect::<Vec<_>>());
                    let lb = lit_arr(&b.iter().map(|e| e.lit.clone()).collect::<Vec<_>>());
                    let ta = lit_arr(&a.iter().map(typed).collect::<Vec<_>>());
                    let tb = lit_arr(&b.iter().map(typed).collect::<Vec<_>>());
                    let ret = format!("[(bool, (u8, u16), (u8, u16)); const {{ {n}usize + {m}usize - 1usize }}]");
                    let (src, args) = match mode {
                        0 => (format!("pub fn main(_d: bool, b: [(u8, u16); {m}]) -> {ret} {{ join({ta}, b) }}"), vec!["true".to_string(), lb.clone()]),
                        1 => (format!("pub fn main(_d: bool, a: [(u8, u16); {n}]) -> {ret} {{ join(a, {tb}) }}"), vec!["true".to_string(), la.clone()]),
                        _ => (format!("pub fn main(_d: bool, _e: bool) -> {ret} {{ join({ta}, {tb}) }}"), vec!["true".to_string(), "false".to_string()]),
                    };
                    let c = match compile(&src) { Ok(c) => c, Err(e) => { fails.push(format!("{}", e.prettify(&src))); continue; } };
                    let out = run(&c, &args).unwrap();
                    if let Err(e) = check_join_func(&out, &a, &b, true, 24, 24) {
                        fails.push(format!("mode={mode} n={n} m={m}: {e}\n  {src}"));
                    }
                    // loop variant
                    let body = "let mut acc = 0u64; for ((_, p), (_, q)) in join_iter(a, b) { acc = (acc % 1000003u64) * 3u64 + (p as u64) + (q as u64) * 2u64; } acc";
                    let (src, args) = match mode {
                        0 => (format!("pub fn main(_d: bool, b: [(u8, u16); {m}]) -> u64 {{ let a = {ta}; {body} }}"), vec!["true".to_string(), lb.clone()]),
                        1 => (format!("pub fn main(_d: bool, a: [(u8, u16); {n}]) -> u64 {{ let b = {tb}; {body} }}"), vec!["true".to_string(), la.clone()]),
                        _ => (format!("pub fn main(_d: bool, _e: bool) -> u64 {{ let a = {ta}; let b = {tb}; {body} }}"), vec!["true".to_string(), "false".to_string()]),
                    };
                    if !strict { continue; }
                    let c = match compile(&src) { Ok(c) => c, Err(e) => { fails.push(format!("{}", e.prettify(&src))); continue; } };
                    let mut acc = 0u64;
                    for x in &a {
                        if let Some(y) = b.iter().find(|y| y.key == x.key) {
                            let pv = x.bits[8..].iter().fold(0u64, |s, &b| (s << 1) | b as u64);
                            let qv = y.bits[8..].iter().fold(0u64, |s, &b| (s << 1) | b as u64);
                            acc = (acc % 1000003) * 3 + pv + qv * 2;
                        }
                    }
                    let got = eval_u(&c, &args);
                    if got != Ok(acc) {
                        fails.push(format!("loop mode={mode} n={n} m={m}: got {got:?} exp {acc}\n  {src}"));
                    }
                }
            }
        }
    }
    report("constant arrays", fails.clone());
    assert!(fails.is_empty());
}

#[test]
fn self_join() {
    let mut fails = vec![];
    let mut rng = Rng(999);
    let k = uint("u8", 8);
    let p = uint("u16", 16);
    for n in 1..=9usize {
        let src = format!("pub fn main(_d: bool, a: [(u8, u16); {n}]) -> [(bool, (u8, u16), (u8, u16)); const {{ {n}usize + {n}usize - 1usize }}] {{ join(a, a) }}");
        let c = compile(&src).unwrap();
        let src2 = format!("pub fn main(_d: bool, a: [(u8, u16); {n}]) -> u64 {{ let mut acc = 0u64; for ((_, p), (_, q)) in join_iter(a, a) {{ acc = (acc % 1000003u64) * 3u64 + (p as u64) + (q as u64) * 2u64; }} acc }}");
        let c2 = compile(&src2).unwrap();
        let src3 = format!("pub fn main(_d: bool, a: [u8; {n}]) -> [(bool, u8); const {{ {n}usize + {n}usize - 1usize }}] {{ join(a, a) }}");
        let c3 = compile(&src3).unwrap();
        for _ in 0..30 {
            let ka = gen_keys(&mut rng, n, 256, true, 12).unwrap();
            let a = mk_elems(&mut rng, &ka, &k, Some(&p), false);
            let la = lit_arr(&a.iter().map(|e| e.lit.clone()).collect::<Vec<_>>());
            let out = run(&c, &["true".into(), la.clone()]).unwrap();
            if let Err(e) = check_join_func(&out, &a, &a, true, 24, 24) {
                fails.push(format!("n={n} a={la}: {e}"));
            }
            let mut acc = 0u64;
            for x in &a {
                let pv = x.bits[8..].iter().fold(0u64, |s, &b| (s << 1) | b as u64);
                acc = (acc % 1000003) * 3 + pv + pv * 2;
            }
            let got = eval_u(&c2, &["true".into(), la.clone()]);
            if got != Ok(acc) {
                fails.push(format!("loop n={n} a={la}: got {got:?} exp {acc}"));
            }
            let a3 = mk_elems(&mut rng, &ka, &k, None, false);
            let la3 = lit_arr(&a3.iter().map(|e| e.lit.clone()).collect::<Vec<_>>());
            let out = run(&c3, &["true".into(), la3.clone()]).unwrap();
            if let Err(e) = check_join_func(&out, &a3, &a3, false, 8, 8) {
                fails.push(format!("psi n={n} a={la3}: {e}"));
            }
        }
    }
    report("self join", fails.clone());
    assert!(fails.is_empty());
}

#[test]
fn explore_const_key() {
    use garble_lang::{compile_with_constants, garble_consts};
    let prg = "
const N: usize = PARTY_0::N;
const M: usize = PARTY_1::M;
pub fn main(a: [([u8; N], u16); M], b: [([u8; N], u8); 3]) -> [(bool, ([u8; N], u16), ([u8; N], u8)); const { M + 3usize - 1usize }] {
    join(a, b)
}";
    let consts = garble_consts!("PARTY_0" => { "N" => 2usize }, "PARTY_1" => { "M" => 2usize });
    match compile_with_constants(prg, consts.clone()) {
        Ok(c) => {
            let mut ev = c.evaluator();
            ev.parse_literal("[([0, 1], 500), ([1, 0], 600)]").unwrap();
            ev.parse_literal("[([0, 0], 5), ([1, 0], 6), ([1, 1], 7)]").unwrap();
            println!("{:?}", ev.run().unwrap().into_literal().map(|l| l.to_string()));
        }
        Err(e) => println!("{}", e.prettify(prg)),
    }
    let prg = "
const N: usize = PARTY_0::N;
const M: usize = PARTY_1::M;
pub fn main(a: [([u8; N], u16); M], b: [([u8; N], u8); 3]) -> u16 {
    let mut acc = 0u16;
    for ((k, p), (_, q)) in join_iter(a, b) { acc = acc * 10u16 + p + (q as u16) + (k[0] as u16); }
    acc
}";
    match compile_with_constants(prg, consts) {
        Ok(c) => {
            let mut ev = c.evaluator();
            ev.parse_literal("[([0, 1], 500), ([1, 0], 600)]").unwrap();
            ev.parse_literal("[([0, 0], 5), ([1, 0], 6), ([1, 1], 7)]").unwrap();
            println!("{:?}", ev.run().unwrap().into_literal().map(|l| l.to_string()));
        }
        Err(e) => println!("{}", e.prettify(prg)),
    }
}

#[test]
fn explore_foreach_zero_bits() {
    try_prg("pub fn main(x: u8, y: u8) -> u8 { let mut c = x; for _ in [(); 3] { c = c + 1u8; } c }", &["5", "0"]);
    try_prg("pub fn main(x: u8, a: [(); 3]) -> u8 { let mut c = x; for _ in a { c = c + 1u8; } c }", &["5", "[(); 3]"]);
    try_prg("pub fn main(x: u8, a: [[u8; 0]; 3]) -> u8 { let mut c = x; for _ in a { c = c + 1u8; } c }", &["5", "[[]; 3]"]);
    try_prg("struct S {} pub fn main(x: u8, a: [S; 4]) -> u8 { let mut c = x; for _ in a { c = c + 1u8; } c }", &["5", "[S {}; 4]"]);
    try_prg("pub fn main(x: u8, y: u8) -> u8 { let a = [[0u8; 0]; 3]; let mut c = x; for _ in a { c = c + 1u8; } c }", &["5", "0"]);
    try_prg("pub fn main(x: u8, y: u8) -> u8 { let a = [((), ()); 3]; let mut c = x; for (p, q) in a { c = c + 1u8; } c }", &["5", "0"]);
    try_prg("pub fn main(x: u8, y: u8) -> u8 { let a = [((), ()); 3]; let mut c = x; for (f, p, q) in join(a, a) { if f { c = c + 1u8; } else { c = c + 10u8; } } c }", &["5", "0"]);
    try_prg("pub fn main(x: u8, y: u8) -> u8 { let a = [(); 3]; let mut c = x; for e in a { for f in a { c = c + 1u8; } } c }", &["5", "0"]);
    try_prg("pub fn main(x: u8, y: u8) -> u8 { let a = [(); 0]; let mut c = x; for e in a { c = c + 1u8; } c }", &["5", "0"]);
    try_prg("pub fn main(x: u8, y: u8) -> u8 { let a = [[(); 2]; 3]; let mut c = x; for e in a { for f in e { c = c + 1u8; } } c }", &["5", "0"]);
}

fn tokenize(src: &str) -> Vec<String> {
    let mut toks = vec![];
    let mut cur = String::new();
    for ch in src.chars() {
        if ch.is_alphanumeric() || ch == '_' {
            cur.push(ch);
        } else {
            if !cur.is_empty() { toks.push(std::mem::take(&mut cur)); }
            toks.push(ch.to_string());
        }
    }
    if !cur.is_empty() { toks.push(cur); }
    toks
}

#[test]
fn token_deletions() {
    let prgs = [
        "pub fn main(a: [(u8, u16); 3], b: [(u8, u8); 2]) -> u16 { let mut r = 0u16; for ((_, x), (_, y)) in join_iter(a, b) { r = r + x + (y as u16); } r }",
        "pub fn main(a: [(u8, u16); 3], b: [(u8, u8); 2]) -> [(bool, (u8, u16), (u8, u8)); const { 3usize + 2usize - 1usize }] { join(a, b) }",
        "pub fn main(a: [u8; 3], b: [u8; 2]) -> [(bool, u8); const { 3usize + 2usize - 1usize }] { join(a, b) }",
        "const N: usize = PARTY_0::N; const M: usize = PARTY_1::M; pub fn main(a: [u8; N], b: [u8; M]) -> [(bool, u8); const { N + M - 1usize }] { join(a, b) }",
        "const N: usize = 3; const M: usize = 2; pub fn main(a: [(u8, u8); N], b: [(u8, u8); M]) -> u8 { let mut r = 0u8; for (x, y) in join_iter(a, b) { r = r + x.1 + y.1; } r }",
        "struct K { a: u8 } enum E { A, B(u8) } pub fn main(a: [(K, E); 3], b: [(K, u8); 2]) -> u8 { let mut r = 0u8; for ((k, e), (_, y)) in join_iter(a, b) { match e { E::A => { r = r + y; } E::B(z) => { r = r + z + k.a; } } } r }",
        "pub fn main(a: [u8; 3], b: [u8; 2], i: usize) -> u8 { let mut s = 0u8; for (f, (f1, k1), (f2, k2)) in join(join(a, b), join(a, b)) { if f { s = s + k1 + k2; } } s }",
    ];
    let mut panics = vec![];
    let mut compiled_ok = 0;
    for prg in prgs {
        use garble_lang::{compile_with_constants, garble_consts};
        let toks = tokenize(prg);
        let mut variants: Vec<String> = vec![];
        for i in 0..toks.len() {
            if toks[i].trim().is_empty() { continue; }
            let mut t = toks.clone();
            t.remove(i);
            variants.push(t.concat());
            // duplications
            let mut t = toks.clone();
            t.insert(i, toks[i].clone());
            variants.push(t.concat());
            // swap with next non-space token
            if let Some(j) = (i + 1..toks.len()).find(|j| !toks[*j].trim().is_empty()) {
                let mut t = toks.clone();
                t.swap(i, j);
                variants.push(t.concat());
            }
            // replace numbers by 0
            if toks[i].chars().all(|c| c.is_ascii_digit()) {
                let mut t = toks.clone();
                t[i] = "0".into();
                variants.push(t.concat());
            }
            if toks[i] == "3usize" || toks[i] == "2usize" || toks[i] == "1usize" {
                let mut t = toks.clone();
                t[i] = "0usize".into();
                variants.push(t.concat());
            }
        }
        for v in variants {
            let v2 = v.clone();
            let r = std::panic::catch_unwind(move || {
                let consts = garble_consts!("PARTY_0" => { "N" => 3usize }, "PARTY_1" => { "M" => 2usize });
                compile_with_constants(&v2, consts).is_ok()
            });
            match r {
                Ok(true) => compiled_ok += 1,
                Ok(false) => {}
                Err(_) => panics.push(v),
            }
        }
    }
    println!("variants that still compile: {compiled_ok}; panics: {}", panics.len());
    for p in &panics {
        println!("PANIC: {p}");
    }
    assert!(panics.is_empty());
}

#[test]
fn all_flag_patterns() {
    use std::collections::HashMap;
    let mut fails = vec![];
    let mut rng = Rng(2024);
    let k = uint("u8", 8);
    let mut cache: HashMap<(usize, usize), GarbleProgram> = HashMap::new();
    let mut count = 0;
    for t in 2..=14usize {
        let l = t - 1;
        for pat in 0u32..(1 << l) {
            if pat & (pat >> 1) != 0 { continue; }
            // build
            let mut ka = vec![];
            let mut kb = vec![];
            let mut key = 0u64;
            let mut i = 0;
            while i < t {
                if i < l && (pat >> i) & 1 == 1 {
                    ka.push(key);
                    kb.push(key);
                    i += 2;
                } else {
                    if rng.below(2) == 0 { ka.push(key) } else { kb.push(key) }
                    i += 1;
                }
                key += 1 + rng.below(3);
            }
            let (n, m) = (ka.len(), kb.len());
            if n == 0 || m == 0 { continue; }
            let c = cache.entry((n, m)).or_insert_with(|| {
                let src = format!("pub fn main(a: [u8; {n}], b: [u8; {m}]) -> [(bool, u8); const {{ {n}usize + {m}usize - 1usize }}] {{ join(a, b) }}");
                compile(&src).unwrap()
            });
            let a = mk_elems(&mut rng, &ka, &k, None, false);
            let b = mk_elems(&mut rng, &kb, &k, None, false);
            let la = lit_arr(&a.iter().map(|e| e.lit.clone()).collect::<Vec<_>>());
            let lb = lit_arr(&b.iter().map(|e| e.lit.clone()).collect::<Vec<_>>());
            let out = run(c, &[la.clone(), lb.clone()]).unwrap();
            count += 1;
            if let Err(e) = check_join_func(&out, &a, &b, false, 8, 8) {
                fails.push(format!("t={t} pat={pat:b} a={la} b={lb}: {e}"));
            }
        }
    }
    println!("checked {count} patterns, {} programs", cache.len());
    report("all flag patterns", fails.clone());
    assert!(fails.is_empty());
}

#[test]
fn explore_signed() {
    let mut rng = Rng(808);
    let mut bad = 0;
    for n in 1..=4usize { for m in 1..=4usize {
        let src = format!("pub fn main(a: [(i8, u8); {n}], b: [(i8, u8); {m}]) -> u16 {{ let mut c = 0u16; for ((_, p), (_, q)) in join_iter(a, b) {{ c = c * 7u16 + (p as u16) + (q as u16) * 2u16; }} c }}");
        let c = compile(&src).unwrap();
        for _ in 0..50 {
            let mk = |rng: &mut Rng, n: usize| { let mut v: Vec<i64> = vec![]; while v.len() < n { let k = rng.below(7) as i64 - 3; if !v.contains(&k) { v.push(k); } } v.sort(); v.into_iter().map(|k| (k, rng.below(4))).collect::<Vec<_>>() };
            let a = mk(&mut rng, n); let b = mk(&mut rng, m);
            let mut exp = 0u64;
            for (k, p) in &a { if let Some((_, q)) = b.iter().find(|(k2, _)| k2 == k) { exp = exp * 7 + p + q * 2; } }
            let la = lit_arr(&a.iter().map(|(k, p)| format!("({k}, {p})")).collect::<Vec<_>>());
            let lb = lit_arr(&b.iter().map(|(k, p)| format!("({k}, {p})")).collect::<Vec<_>>());
            let got = eval_u(&c, &[la.clone(), lb.clone()]);
            if got != Ok(exp) { if bad < 5 { println!("signed mismatch: a={la} b={lb} got {got:?} exp {exp}"); } bad += 1; }
        }
    }}
    println!("signed mismatches: {bad}");
}

#[test]
fn rich_body() {
    let mut rng = Rng(123456789);
    let mut fails = vec![];
    for (n, m) in [(1usize, 1usize), (2, 3), (3, 3), (4, 2), (5, 4), (3, 6)] {
        let src = format!(
            "enum E {{ A, B(u8), C(u8, bool) }}
struct S {{ cnt: u8, last: (u8, u8), hist: [u8; 4] }}
pub fn main(a: [(u8, E); {n}], b: [(u8, u8); {m}]) -> S {{
    let mut s = S {{ cnt: 0u8, last: (0u8, 0u8), hist: [0u8; 4] }};
    let mut e_last = E::A;
    for ((k, e), (_, q)) in join_iter(a, b) {{
        s.cnt = s.cnt + 1u8;
        match e {{
            E::A => {{ s.last = (k, q); }}
            E::B(x) => {{
                s.hist[x as usize] = s.hist[x as usize] + q;
                for h in s.hist {{ s.last.1 = s.last.1 ^ h; }}
            }}
            E::C(x, f) => {{
                if f {{ s.last.0 = 10u8 / x; }} else {{ s.last.0 = x - q; }}
            }}
        }}
        e_last = e;
    }}
    match e_last {{ E::A => {{ }} E::B(x) => {{ s.cnt = s.cnt + 100u8; }} E::C(x, f) => {{ s.cnt = s.cnt + 200u8; }} }}
    s
}}"
        );
        let c = match compile(&src) { Ok(c) => c, Err(e) => panic!("{}", e.prettify(&src)) };
        for _ in 0..400 {
            let ka = gen_keys(&mut rng, n, 256, true, 7).unwrap();
            let kb = gen_keys(&mut rng, m, 256, true, 7).unwrap();
            #[derive(Clone, Copy, Debug)]
            enum E { A, B(u64), C(u64, bool) }
            let a: Vec<(u64, E)> = ka.iter().map(|k| (*k, match rng.below(3) { 0 => E::A, 1 => E::B(rng.below(5)), _ => E::C(rng.below(4), rng.below(2) == 0) })).collect();
            let b: Vec<(u64, u64)> = kb.iter().map(|k| (*k, rng.below(4))).collect();
            let la = lit_arr(&a.iter().map(|(k, e)| format!("({k}, {})", match e { E::A => "E::A".to_string(), E::B(x) => format!("E::B({x})"), E::C(x, f) => format!("E::C({x}, {f})") })).collect::<Vec<_>>());
            let lb = rows_lit(&b);
            // model
            let mut cnt = 0u64; let mut last = (0u64, 0u64); let mut hist = [0u64; 4]; let mut e_last = E::A;
            let mut exp: Result<String, String> = Ok(String::new());
            for (k, e) in &a {
                let Some((_, q)) = b.iter().find(|(k2, _)| k2 == k) else { continue };
                cnt += 1;
                match e {
                    E::A => last = (*k, *q),
                    E::B(x) => {
                        if *x >= 4 { exp = Err("OutOfBounds".into()); break; }
                        hist[*x as usize] += q;
                        for h in hist { last.1 ^= h; }
                    }
                    E::C(x, f) => {
                        if *f { if *x == 0 { exp = Err("DivByZero".into()); break; } last.0 = 10 / x; }
                        else { if x < q { exp = Err("Overflow".into()); break; } last.0 = x - q; }
                    }
                }
                e_last = *e;
            }
            if exp.is_ok() {
                match e_last { E::A => {}, E::B(_) => cnt += 100, E::C(..) => cnt += 200 }
                exp = Ok(format!("S {{cnt: {cnt}, hist: [{}, {}, {}, {}], last: ({}, {})}}", hist[0], hist[1], hist[2], hist[3], last.0, last.1));
            }
            let mut ev = c.evaluator();
            ev.parse_literal(&la).unwrap();
            ev.parse_literal(&lb).unwrap();
            let got = match ev.run().unwrap().into_literal() {
                Ok(l) => Ok(l.to_string()),
                Err(garble_lang::eval::EvalError::Panic(p)) => Err(format!("{:?}", p.reason)),
                Err(e) => Err(format!("{e:?}")),
            };
            if got != exp {
                fails.push(format!("n={n} m={m} a={la} b={lb}: got {got:?} exp {exp:?}"));
                if fails.len() > 5 { break; }
            }
        }
    }
    report("rich body", fails.clone());
    assert!(fails.is_empty());
}

#[test]
fn wide_keys_and_regroup() {
    let mut rng = Rng(8675309);
    let mut fails = vec![];
    let vals: Vec<(u64, u64)> = {
        let mut v = vec![];
        for hi in [0u64, 1, u64::MAX - 1, u64::MAX] { for lo in [0u64, 1, 1 << 63, u64::MAX - 1, u64::MAX] { v.push((hi, lo)); } }
        v.sort();
        v
    };
    for (n, m) in [(1usize, 1usize), (2, 3), (4, 4), (5, 3), (7, 6)] {
        let src = format!("pub fn main(a: [((u64, u64), u8); {n}], b: [((u64, u64), u8); {m}]) -> [u8; {}] {{
    let mut out = [0u8; {}];
    let mut i = 0usize;
    for ((_, p), (_, q)) in join_iter(a, b) {{ out[i] = p * 16u8 + q; i = i + 1usize; }}
    out
}}", n.min(m), n.min(m));
        let c = compile(&src).unwrap();
        // regroup variant: key is the first two fields of a triple
        let src2 = format!("pub fn main(a0: [(u16, u16, u8); {n}], b0: [(u16, u16, u8); {m}]) -> [u8; {}] {{
    let mut a = [((0u16, 0u16), 0u8); {n}];
    let mut b = [((0u16, 0u16), 0u8); {m}];
    let mut i = 0usize;
    for (x, y, z) in a0 {{ a[i] = ((x, y), z); i = i + 1usize; }}
    i = 0usize;
    for (x, y, z) in b0 {{ b[i] = ((x, y), z); i = i + 1usize; }}
    let mut out = [0u8; {}];
    i = 0usize;
    for ((_, p), (_, q)) in join_iter(a, b) {{ out[i] = p * 16u8 + q; i = i + 1usize; }}
    out
}}", n.min(m), n.min(m));
        let c2 = compile(&src2).unwrap();
        for _ in 0..60 {
            let pick = |rng: &mut Rng, n: usize| { let mut idx: Vec<usize> = vec![]; while idx.len() < n { let i = rng.below(vals.len() as u64) as usize; if !idx.contains(&i) { idx.push(i); } } idx.sort(); idx.into_iter().map(|i| (i, rng.below(16))).collect::<Vec<_>>() };
            let a = pick(&mut rng, n); let b = pick(&mut rng, m);
            let mut exp = vec![0u64; n.min(m)];
            let mut j = 0;
            for (k, p) in &a { if let Some((_, q)) = b.iter().find(|(k2, _)| k2 == k) { exp[j] = p * 16 + q; j += 1; } }
            let la = lit_arr(&a.iter().map(|(i, p)| format!("(({}, {}), {p})", vals[*i].0, vals[*i].1)).collect::<Vec<_>>());
            let lb = lit_arr(&b.iter().map(|(i, p)| format!("(({}, {}), {p})", vals[*i].0, vals[*i].1)).collect::<Vec<_>>());
            let out = run(&c, &[la.clone(), lb.clone()]);
            let got: Result<Vec<u64>, String> = out.map(|o| o.chunks(8).map(|ch| ch.iter().fold(0u64, |s, &b| (s << 1) | b as u64)).collect());
            if got != Ok(exp.clone()) { fails.push(format!("wide n={n} m={m} a={la} b={lb}: got {got:?} exp {exp:?}")); }
            // regroup: map index i -> (i / 5 * 1000, i % 5 * 13000)
            let f = |i: usize| ((i / 5) as u64 * 20000, (i % 5) as u64 * 13000);
            let la = lit_arr(&a.iter().map(|(i, p)| format!("({}, {}, {p})", f(*i).0, f(*i).1)).collect::<Vec<_>>());
            let lb = lit_arr(&b.iter().map(|(i, p)| format!("({}, {}, {p})", f(*i).0, f(*i).1)).collect::<Vec<_>>());
            let out = run(&c2, &[la.clone(), lb.clone()]);
            let got: Result<Vec<u64>, String> = out.map(|o| o.chunks(8).map(|ch| ch.iter().fold(0u64, |s, &b| (s << 1) | b as u64)).collect());
            if got != Ok(exp.clone()) { fails.push(format!("regroup n={n} m={m} a={la} b={lb}: got {got:?} exp {exp:?}")); }
        }
    }
    report("wide keys / regroup", fails.clone());
    assert!(fails.is_empty());
}

#[test]
fn determinism() {
    let src = "pub fn main(a: [(u8, u16); 5], b: [(u8, u8); 3]) -> (u16, [(bool, (u8, u16), (u8, u8)); const { 5usize + 3usize - 1usize }]) { let mut r = 0u16; let mut s = 1u16; let mut t = [0u8; 3]; for ((k, x), (_, y)) in join_iter(a, b) { r = r + x + (y as u16); s = s * 2u16; t[0] = k; } (r + s + (t[0] as u16), join(a, b)) }";
    let first = format!("{:?}", compile(src).unwrap().circuit);
    for _ in 0..10 {
        let again = format!("{:?}", compile(src).unwrap().circuit);
        assert_eq!(first.len(), again.len());
        assert!(first == again, "circuits differ between compilations");
    }
}

#[test]
fn explore_nested_type() {
    let a = "[1, 3, 5]"; let b = "[3, 4]";
    try_prg("pub fn main(a: [u8; 3], b: [u8; 2], i: usize) -> [(bool, (bool, u8), (bool, u8)); const { (3usize + 2usize - 1usize) + (3usize + 2usize - 1usize) - 1usize }] { join(join(a, b), join(a, b)) }", &[a, b, "4"]);
    try_prg("pub fn main(a: [u8; 3], b: [u8; 2], i: usize) -> [(bool, (bool, u8), (bool, u8)); const { 3usize + 2usize - 1usize + (3usize + 2usize - 1usize) - 1usize }] { join(join(a, b), join(a, b)) }", &[a, b, "4"]);
}

#[test]
fn large_join() {
    let (n, m) = (500usize, 300usize);
    let mut rng = Rng(5);
    let k = uint("u16", 16);
    let p = uint("u8", 8);
    let src = format!("pub fn main(a: [(u16, u8); {n}], b: [(u16, u8); {m}]) -> [(bool, (u16, u8), (u16, u8)); const {{ {n}usize + {m}usize - 1usize }}] {{ join(a, b) }}");
    let c = compile(&src).unwrap();
    let ka = gen_keys(&mut rng, n, 1 << 16, true, 900).unwrap();
    let kb = gen_keys(&mut rng, m, 1 << 16, true, 900).unwrap();
    let a = mk_elems(&mut rng, &ka, &k, Some(&p), false);
    let b = mk_elems(&mut rng, &kb, &k, Some(&p), false);
    let la = lit_arr(&a.iter().map(|e| e.lit.clone()).collect::<Vec<_>>());
    let lb = lit_arr(&b.iter().map(|e| e.lit.clone()).collect::<Vec<_>>());
    let out = run(&c, &[la, lb]).unwrap();
    check_join_func(&out, &a, &b, true, 24, 24).unwrap();
}
