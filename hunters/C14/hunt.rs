//! Property C14: no shared mutable state, copies independent, control flow merges variables right.
//! Every test below FAILS on the unchanged code; the comment on each test says what would be correct.
//! (copy to tests/hunt_c14.rs and run `cargo test --offline --test hunt_c14`)

use garble_lang::compile;

/// Compiles `prg`, runs `main` on the given literals and returns the printed output literal.
fn run(prg: &str, args: &[&str]) -> String {
    let compiled = compile(prg).unwrap_or_else(|e| panic!("{}", e.prettify(prg)));
    let mut eval = compiled.evaluator();
    for a in args {
        eval.parse_literal(a)
            .unwrap_or_else(|e| panic!("{}", e.prettify(prg)));
    }
    let out = eval.run().unwrap_or_else(|e| panic!("{}", e.prettify(prg)));
    let lit = out
        .into_literal()
        .unwrap_or_else(|e| panic!("{}", e.prettify(prg)));
    format!("{lit}")
}

/// Defect 1: a `let` directly in the body of a `for` loop stays in scope for the NEXT iteration
/// (the loop is unrolled into one single scope), so a statement that precedes the shadowing `let`
/// and refers to the outer variable reads / assigns the (immutable!) inner binding of the previous
/// iteration from the second iteration on.
///
/// Correct: the shadowing binding ends with each iteration; `acc = acc + i` always refers to the
/// outer `acc`, so the result is 1 + 1 + 2 + 3 = 7. Observed: 2.
#[test]
fn for_body_let_shadowing_outer_variable_leaks_into_next_iteration() {
    let prg = "
pub fn main(a: u8) -> u8 {
    let mut acc = a;
    for i in [1u8, 2u8, 3u8] {
        acc = acc + i;
        let acc = 100u8;
    }
    acc
}";
    assert_eq!(run(prg, &["1"]), "7");
}

/// Defect 2: a callee is compiled inside the environment of its caller, so a top-level `const`
/// used by the callee is captured by any local variable of the caller that has the same name
/// (the type checker resolves `X` in `f` to the const, as it should).
///
/// Correct: `f()` returns the const 1, so the result is 1 + 5 = 6. Observed: 10 (f returns 5).
#[test]
fn const_in_callee_is_captured_by_local_of_the_caller() {
    let prg = "
const X: u8 = 1u8;
fn f() -> u8 { X }
pub fn main(a: u8) -> u8 {
    let X = a;
    f() + X
}";
    assert_eq!(run(prg, &["5"]), "6");
}

/// Defect 3: the parameters of the compiled (main) function and the top-level consts are bound in
/// the same scope, consts last, so a const silently replaces a parameter of the same name (the type
/// checker resolves `X` to the parameter).
///
/// Correct: the parameter shadows the const, result 5. Observed: 1.
#[test]
fn parameter_of_main_is_overwritten_by_const_of_the_same_name() {
    let prg = "
const X: u8 = 1u8;
pub fn main(X: u8) -> u8 {
    X
}";
    assert_eq!(run(prg, &["5"]), "5");
}

/// Defect 4: `VarAssign` reads the old value of the variable BEFORE compiling the index and value
/// expressions; if one of them assigns to (another part of) the same variable, that assignment is
/// lost in the read-modify-write.
///
/// Correct: both assignments take place, `[3, 5]`. Observed: `[3, 0]`.
/// (same with `arr[{ arr[1] = 5u8; 0usize }] = a;` and with tuple / struct fields, e.g.
///  `t.0 = if a > 1u8 { t.1 = 5u8; a } else { a };`)
#[test]
fn assignment_inside_the_value_of_an_element_assignment_is_lost() {
    let prg = "
pub fn main(a: u8) -> [u8; 2] {
    let mut arr = [0u8, 0u8];
    arr[0] = { arr[1] = 5u8; a };
    arr
}";
    assert_eq!(run(prg, &["3"]), "[3, 5]");
}

/// Defect 5: the parser desugars `x <= y` (and `x >= y`) to `(x < y) | (x == y)` by cloning both
/// operands, so assignments inside an operand are executed twice.
///
/// Correct: the block runs once, `n` is 1. Observed: `(true, 2)`.
#[test]
fn operands_of_less_or_equal_are_evaluated_twice() {
    let prg = "
pub fn main(a: u8) -> (bool, u8) {
    let mut n = 0u8;
    let r = ({ n = n + 1u8; a }) <= 5u8;
    (r, n)
}";
    assert_eq!(run(prg, &["3"]), "(true, 1)");
}

/// Defect 6: the compiler rewrites `e * k` for a small literal `k` to `e + e + ... + e` and
/// compiles `e` k times, so assignments inside `e` are executed k times (and each copy sees the
/// effects of the previous ones).
///
/// Correct: x is incremented once, `(2, 6)`. Observed: `(4, 9)`.
#[test]
fn operand_of_multiplication_by_small_literal_is_evaluated_repeatedly() {
    let prg = "
pub fn main(a: u8) -> (u8, u8) {
    let mut x = a;
    let r = ({ x = x + 1u8; x }) * 3u8;
    (x, r)
}";
    assert_eq!(run(prg, &["1"]), "(2, 6)");
}

/// Defect 7: the parser desugars `arr[i] += v` to `arr[i] = arr[i] + v` by cloning the index
/// expression, so assignments inside the index are executed twice and the read and the write use
/// different elements.
///
/// Correct: `i` becomes 1 and `arr[1]` becomes 21. Observed: `([10, 31, 30, 40], 2)`.
#[test]
fn index_of_op_assignment_is_evaluated_twice() {
    let prg = "
pub fn main(a: usize) -> ([u8; 4], usize) {
    let mut arr = [10u8, 20u8, 30u8, 40u8];
    let mut i = a;
    arr[{ i = i + 1usize; i }] += 1u8;
    (arr, i)
}";
    assert_eq!(run(prg, &["0"]), "([10, 21, 30, 40], 1)");
}

/// Defect 8: an immutable array / tuple of unsuffixed number literals keeps 32 wires per element,
/// but can be assigned (or bound, or passed) to a variable whose elements have another number type:
/// only scalar numbers are adjusted to the width of their type. The copy then holds wrong values,
/// and merging the variable after an `if` panics inside the compiler (mux_envs: "Bindings of
/// variable 'u' have different lengths").
///
/// Correct: `u` is a copy of `t`, `(1, 2)`. Observed: `(0, 0)`.
/// (panic variant: `let t = [1, 2]; let mut u = [a, a]; if c { u = t; } u` does not compile, the
///  compiler panics in circuit.rs mux_envs)
#[test]
fn copy_of_collection_of_unsuffixed_literals_holds_wrong_values() {
    let prg = "
pub fn main(a: u8) -> (u8, u8) {
    let t = (1, 2);
    let mut u = (a, a);
    u = t;
    u
}";
    assert_eq!(run(prg, &["9"]), "(1, 2)");
}
