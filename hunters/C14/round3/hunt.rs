//! Property C14 (no shared mutable state / control flow merges variables right):
//! one test per distinct defect, each FAILING on the unchanged code.
//! Copy to tests/hunt_c14.rs and run with `cargo test --offline --test hunt_c14`.
use garble_lang::compile;

/// Compiles `prg`, runs it on the literal `args`, returns the printed output literal
/// (or a string starting with "COMPILE-ERR" / "EVAL-ERR").
fn run(prg: &str, args: &[&str]) -> String {
    let compiled = match compile(prg) {
        Ok(c) => c,
        Err(e) => return format!("COMPILE-ERR: {}", e.prettify(prg)),
    };
    let mut eval = compiled.evaluator();
    for a in args {
        eval.parse_literal(a).unwrap();
    }
    match eval.run().unwrap().into_literal() {
        Ok(l) => format!("{l}"),
        Err(e) => format!("EVAL-ERR: {e:?}"),
    }
}

/// Defect 1: `place op= value` is desugared by the parser into `place = place op value` with the
/// accessors (including the index expressions) duplicated, so an index expression with a side
/// effect is evaluated TWICE and the element that is read is not the element that is written.
///
/// Correct behaviour (Rust semantics, and what a reader of `x[i] += 10` expects): the index is
/// evaluated exactly once, `n` ends up as 1 and only x[0] changes, to 1 + 10 = 11.
/// Observed: ([15, 5, 7], 2)  (x[0] = x[1] + 10, and n was incremented twice).
#[test]
fn op_assign_evaluates_side_effecting_index_once() {
    let prg = "
pub fn main(a: u8) -> ([u8; 3], usize) {
    let mut n = 0usize;
    let mut x = [a, 5u8, 7u8];
    x[{ n = n + 1usize; n - 1usize }] += 10u8;
    (x, n)
}";
    assert_eq!(run(prg, &["1"]), "([11, 5, 7], 1)");
}

/// Defect 2: the field initialisers of a struct literal are evaluated in the order of the struct
/// DEFINITION, not in the order in which they are written, so assignments inside the initialisers
/// are seen in the wrong order.
///
/// Correct behaviour (source order, as in Rust and as for tuple / array / enum literals and call
/// arguments in Garble itself): `b` is evaluated first (x = 2, b = 2), then `a` (x = 4, a = 4),
/// i.e. (4, 2, 4).  Observed: (2, 3, 3).
#[test]
fn struct_literal_fields_are_evaluated_in_source_order() {
    let prg = "
struct S { a: u8, b: u8 }
pub fn main(z: u8) -> (u8, u8, u8) {
    let mut x = z;
    let s = S { b: { x = x + 1u8; x }, a: { x = x * 2u8; x } };
    (s.a, s.b, x)
}";
    assert_eq!(run(prg, &["1"]), "(4, 2, 4)");
}

/// Defect 3: an index expression that STARTS with a number literal without type suffix is parsed
/// as the constant index `a[<literal>]`, and everything after the literal is a parse error. This
/// hits both reads and assignments through input-dependent indices: `a[1 + i]`, `a[2 - i] = v`,
/// `a[2 * i]`. (`a[i + 1]`, `a[(1 + i)]` and `a[1usize + i]` are accepted.)
///
/// Correct behaviour: the program is valid and returns [1, 2, 9] for i = 1.
/// Observed: Parse error "Expected ']'" at the `+`.
#[test]
fn index_expression_may_start_with_unsuffixed_literal() {
    let prg = "
pub fn main(mut a: [u8; 3], i: usize) -> [u8; 3] {
    a[1 + i] = 9u8;
    a
}";
    assert_eq!(run(prg, &["[1, 2, 3]", "1"]), "[1, 2, 9]");
}

/// Defect 4: `let mut` gives number literals without suffix the type i32, but only one level deep:
/// in `[[0; 3]; 3]`, `[(0, 0); 3]`, `(1, (2, 3))` the inner numbers keep the internal type
/// "unspecified unsigned int". Such an element can then never be assigned a typed value
/// ("Expected type unspecified unsigned int, but found i32"), although the flat `let mut g = [0; 3];
/// g[i] = a;` works and although reads like `g[1][1] + a` treat the element as i32.
///
/// Correct behaviour: the program is valid (elements default to i32) and returns 7.
/// Observed: type error at the assigned value.
#[test]
fn nested_unsuffixed_literals_in_let_mut_are_assignable() {
    let prg = "
pub fn main(a: i32, i: usize) -> i32 {
    let mut g = [[0; 3]; 3];
    g[i][i] = a;
    g[1][1]
}";
    assert_eq!(run(prg, &["7", "1"]), "7");
}

/// Defect 5: an immutable `let x = <literal without suffix>` is stored as 32 wires and every USE of
/// `x` re-interprets these wires at the type needed there: wider signed types sign-extend bit 31,
/// narrower types silently truncate. Copies of one and the same variable therefore have different
/// values (and the range check that literals get is bypassed: `let x = 300; let y: u8 = x;`
/// compiles and yields 44).
///
/// Correct behaviour: both copies hold the value that was assigned to x, (3000000000, 3000000000)
/// (or the program is rejected). Observed: (-1294967296, 3000000000).
#[test]
fn copies_of_an_untyped_literal_variable_have_the_same_value() {
    let prg = "
pub fn main(i: u8) -> (i64, u64) {
    let x = 3000000000;
    let y: i64 = x;
    let z: u64 = x;
    (y, z)
}";
    assert_eq!(run(prg, &["1"]), "(3000000000, 3000000000)");
}
