// Property C14 (no shared mutable state / control-flow merges): NO defect found.
//
// This file intentionally contains no failing #[test]: none of the sweeps described in
// notes.md produced a behaviour that contradicts the property on the unchanged tree.
// The harnesses that were used are kept next to this file (copy them into tests/ to run):
//   fuzz_c14.rs          differential fuzzer (random programs vs. a reference interpreter)
//   probe_join.rs        for-join loops vs. a nested-loop model
//   probe_rejects.rs     scope / mutability programs that must be rejected
//   probe_zero_sized.rs  for-each over zero-sized elements, ranges
//   probe_mul.rs         multiplication by a literal with side-effecting operands
