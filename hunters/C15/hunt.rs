//! Property C15: circuits contain no useless gates; pure data movement costs zero AND gates.
//!
//! Every test in this file FAILS on the unchanged code. Copy the file to `tests/` and run
//! `cargo test --offline --test hunt`.
//!
//! Tests 1-4 share one root cause (the AND-factoring rewrite in `CircuitBuilder::push_xor`,
//! src/circuit.rs, emits its two gates with `push_gate` directly and so bypasses `optimize_xor`,
//! `optimize_and` and the sub-expression cache); they are kept apart because each contradicts a
//! different clause of the property. Test 5 has a different root cause (`push_panic_if` with a
//! constant-false condition).

use garble_lang::circuit::{Circuit, Gate};
use garble_lang::{CompileOptions, compile, compile_with_options};

fn ssa(prg: &str) -> Circuit {
    compile(prg)
        .unwrap_or_else(|e| panic!("{}", e.prettify(prg)))
        .circuit
        .unwrap_ssa()
}

fn ssa_without_dedup(prg: &str) -> Circuit {
    compile_with_options(
        prg,
        CompileOptions {
            optimize_duplicate_gates: false,
            ..Default::default()
        },
    )
    .unwrap_or_else(|e| panic!("{}", e.prettify(prg)))
    .circuit
    .unwrap_ssa()
}

/// Exhaustive truth tables of all wires (inputs first, then gates), one `Vec<bool>` (indexed by
/// the input assignment) per wire. Only for circuits with few input bits.
fn truth_tables(c: &Circuit) -> Vec<Vec<bool>> {
    let n: usize = c.input_gates.iter().sum();
    assert!(n <= 16);
    let rows = 1usize << n;
    let mut tt: Vec<Vec<bool>> = (0..n)
        .map(|i| (0..rows).map(|r| (r >> i) & 1 == 1).collect())
        .collect();
    for g in c.gates.iter() {
        let v: Vec<bool> = match *g {
            Gate::Xor(x, y) => (0..rows).map(|r| tt[x][r] ^ tt[y][r]).collect(),
            Gate::And(x, y) => (0..rows).map(|r| tt[x][r] & tt[y][r]).collect(),
            Gate::Not(x) => (0..rows).map(|r| !tt[x][r]).collect(),
        };
        tt.push(v);
    }
    tt
}

fn is_const(v: &[bool]) -> bool {
    v.iter().all(|b| *b) || v.iter().all(|b| !*b)
}

/// AND gates (as wire indices) that have an operand which is the same for all inputs.
fn ands_with_constant_operand(c: &Circuit) -> Vec<(usize, Gate)> {
    let n: usize = c.input_gates.iter().sum();
    let tt = truth_tables(c);
    let mut found = vec![];
    for (i, g) in c.gates.iter().enumerate() {
        if let Gate::And(x, y) = *g {
            if is_const(&tt[x]) || is_const(&tt[y]) {
                found.push((n + i, g.clone()));
            }
        }
    }
    found
}

/// Defect 1: an AND gate with a constant operand (default options, de-duplication on).
///
/// `(p & q) ^ (p & !q)` is rewritten by `push_xor` to `p & (q ^ !q)`, but the inner XOR and the
/// AND are pushed with `push_gate`, so `q ^ !q` is not folded to `true` and `p & true` is not
/// folded to `p`. The circuit is `[const0, const1, Not(q), Xor(q, Not(q)), And(p, Xor(..))]`.
///
/// The same happens in every `match` with 3 or more arms over a tag of 2 or more bits
/// (`has_prev_match = or(A, B)` with `A = And(!t0, !t1)`, `B = And(!t0, t1)`).
///
/// Correct behaviour: no AND gate has an operand that is a constant; the first program needs 0
/// AND gates (the result is just `p`).
#[test]
fn and_gate_with_constant_operand() {
    let mut failures = vec![];
    for prg in [
        "pub fn main(p: bool, q: bool) -> bool { (p & q) ^ (p & !q) }",
        "enum E { A, B, C }
pub fn main(e: E) -> u8 { match e { E::A => 1u8, E::B => 2u8, E::C => 3u8 } }",
    ] {
        let c = ssa(prg);
        let bad = ands_with_constant_operand(&c);
        if !bad.is_empty() {
            failures.push(format!(
                "AND gates with a constant operand: {bad:?}\n  all gates: {:?}\n  in: {prg}",
                c.gates
            ));
        }
    }
    assert!(failures.is_empty(), "{}", failures.join("\n"));
    let c = ssa("pub fn main(p: bool, q: bool) -> bool { (p & q) ^ (p & !q) }");
    assert_eq!(c.and_gates(), 0);
}

/// Defect 2: an AND gate whose two operands are the same value (two identical XOR gates), with
/// de-duplication on.
///
/// `((p ^ q) & p) ^ ((p ^ q) & q)` is rewritten to `(p ^ q) & (p ^ q)`, but the inner XOR is pushed
/// with `push_gate` although `Xor(p, q)` already exists: the circuit contains `Xor(p, q)` twice and
/// an AND of the two copies, `[.., 4 = Xor(0, 1), 5 = Xor(0, 1), 6 = And(4, 5)]`.
///
/// Correct behaviour: `x & x` is folded to `x` (0 AND gates, the result is `p ^ q`), and with
/// de-duplication on no gate exists twice.
#[test]
fn and_gate_of_two_copies_of_the_same_xor() {
    let prg = "pub fn main(p: bool, q: bool) -> bool { ((p ^ q) & p) ^ ((p ^ q) & q) }";
    let c = ssa(prg);
    let n: usize = c.input_gates.iter().sum();
    for g in c.gates.iter() {
        if let Gate::And(x, y) = *g {
            if x >= n && y >= n {
                assert_ne!(
                    c.gates[x - n],
                    c.gates[y - n],
                    "{g:?} has two structurally identical operands; all gates: {:?}",
                    c.gates
                );
            }
        }
    }
    assert_eq!(c.and_gates(), 0, "{:?}", c.gates);
}

/// Defect 3: pure data movement of already computed values costs AND gates.
///
/// Reading a constant index from an array (or selecting with a constant condition) is compiled
/// to `push_mux(const, x0, x1)`, i.e. `x0 ^ (x0 ^ x1)`. If `x0 = And(p, q)` and `x1 = And(p, r)`
/// share an operand, both XORs take the AND-factoring path of `push_xor`, and the result is the
/// NEW gate `And(p, Xor(q, Xor(q, r)))` instead of the existing wire `x1`.
///
/// Correct behaviour: `a[0]` is the wire of `x & y` that already exists, so returning `a[0]` in
/// addition to `a` must not cost a single gate: 16 AND gates (8 for `x & y`, 8 for `x & z`), not 24.
/// (A constant-index *write* `b[0] = a[1]` into such an array additionally leaves a chain of about
/// 1000 XOR gates, as each of the 32 index bits adds another `q ^ (q ^ ..)` layer.)
#[test]
fn constant_index_read_of_computed_values_costs_and_gates() {
    let without_read =
        "pub fn main(x: u8, y: u8, z: u8) -> ([u8; 2], u8) { let a = [x & y, x & z]; (a, x & y) }";
    let with_read =
        "pub fn main(x: u8, y: u8, z: u8) -> ([u8; 2], u8) { let a = [x & y, x & z]; (a, a[0]) }";
    let expected = ssa(without_read);
    assert_eq!(expected.and_gates(), 16);
    let actual = ssa(with_read);
    assert_eq!(
        actual.and_gates(),
        expected.and_gates(),
        "reading a[0] must not add AND gates"
    );
    // the same with a constant condition instead of a constant index:
    let c = ssa(
        "pub fn main(x: bool, y: bool, z: bool) -> (bool, bool, bool) {
            let a = x & y;
            let b = x & z;
            (a, b, if false { a } else { b })
        }",
    );
    assert_eq!(c.and_gates(), 2, "{:?}", c.gates);
}

/// Defect 4: with `optimize_duplicate_gates: false`, an AND gate whose operand is the constant
/// `Xor(q, q)` (the very shape of the constant-false gate).
///
/// `(p & q) ^ (p & q)`: without the cache the two `p & q` are different wires, the XOR of the two
/// takes the AND-factoring path and emits `Xor(q, q)` and `And(p, Xor(q, q))` unfolded:
/// `[const0, const1, 4 = Xor(1, 1), 5 = And(0, 4)]`.
///
/// Correct behaviour: the clause "no AND gate has a constant operand" does not depend on the
/// de-duplication option (`x ^ x == 0` and `x & 0 == 0` are folded without the cache everywhere
/// else), so the circuit has no AND gate at all.
#[test]
fn without_dedup_and_gate_with_constant_false_operand() {
    let prg = "pub fn main(p: bool, q: bool) -> bool { (p & q) ^ (p & q) }";
    let c = ssa_without_dedup(prg);
    let n: usize = c.input_gates.iter().sum();
    for g in c.gates.iter() {
        if let Gate::And(x, y) = *g {
            for w in [x, y] {
                if w >= n {
                    if let Gate::Xor(a, b) = c.gates[w - n] {
                        assert_ne!(a, b, "{g:?} has the constant Xor({a}, {b}) as operand; all gates: {:?}", c.gates);
                    }
                }
            }
        }
    }
    assert!(ands_with_constant_operand(&c).is_empty());
}

/// Defect 5: constant-index reads that can never be out of bounds cost AND gates (for the
/// location fields of a panic that cannot happen).
///
/// `push_panic_if(cond, ..)` with `cond == 0` (constant false: the index is provably in bounds)
/// still overwrites the line/column fields of the panic record with the location of the access
/// (because `already_panicked == 0` selects "current"). Inside the branches of a non-constant
/// `if` / `match` the records of the branches then differ, and `mux_panic` builds gates that
/// select between the locations, although `has_panicked` is the constant false. With two levels
/// of branching these are AND gates.
///
/// Correct behaviour: a check whose condition is constant false leaves the panic record alone;
/// then (a) the array program has as many AND gates as the same program over a tuple (16), and (b)
/// a program that returns `a[0]` on every path has 0 AND gates, and (c) if the `has_panicked` output
/// is the constant-false wire, all other panic outputs are constant wires, too.
#[test]
fn in_bounds_constant_index_costs_and_gates_for_panic_location() {
    let array = ssa(
        "pub fn main(a: [u8; 3], c: bool, d: bool) -> u8 {
    if c {
        a[0]
    } else if d {
        a[1]
    } else {
        a[2]
    }
}",
    );
    let tuple = ssa(
        "pub fn main(a: (u8, u8, u8), c: bool, d: bool) -> u8 {
    if c {
        a.0
    } else if d {
        a.1
    } else {
        a.2
    }
}",
    );
    let n: usize = array.input_gates.iter().sum();
    // the circuit can never panic...
    assert_eq!(array.output_gates[0], n, "has_panicked is the constant false");
    // ...but some of the 160 other panic outputs are computed from c and d:
    let non_const_panic_outputs = array.output_gates[1..161]
        .iter()
        .filter(|w| **w != n && **w != n + 1)
        .count();
    let copy_only = ssa(
        "pub fn main(a: [u8; 2], c: bool, d: bool) -> u8 {
    if d {
        if c {
            a[0]
        } else {
            a[0]
        }
    } else {
        a[0]
    }
}",
    );
    assert_eq!(
        (array.and_gates(), non_const_panic_outputs, copy_only.and_gates()),
        (tuple.and_gates(), 0, 0),
        "(AND gates of the array program, non-constant panic outputs, AND gates of the program that always returns a[0])"
    );
}
