//! Hunt C15: "Circuits contain no useless gates; pure data movement costs zero AND gates".
//!
//! Every test in this file FAILS on the unchanged code. Copy to tests/hunt.rs and run
//! `cargo test --offline --test hunt`.
//!
//! Tests 1-3 share one root cause (the AND-factoring rewrite of `CircuitBuilder::push_xor`,
//! src/circuit.rs lines 866-884, emits its two new gates through the shallow `optimize_xor` /
//! `optimize_and` only, so none of the structural rewrites of `push_xor` / `push_and` see them):
//! test 1 is the XOR gate, test 2 is its consequence for constant-index reads / constant
//! conditions, test 3 is the AND gate. Test 4 is a different defect (Bristol exporter).

use garble_lang::circuit::{Circuit, Gate};
use garble_lang::compile;

fn ssa(src: &str) -> Circuit {
    match compile(src) {
        Ok(p) => p.circuit.unwrap_ssa(),
        Err(e) => panic!("{}\n{}", e.prettify(src), src),
    }
}

/// Truth table (one bit per input assignment) of every wire of a circuit with <= 6 input bits.
fn truth_tables(c: &Circuit) -> Vec<u64> {
    let n_in: usize = c.input_gates.iter().sum();
    assert!(n_in <= 6);
    let mask: u64 = if n_in == 6 { !0 } else { (1u64 << (1 << n_in)) - 1 };
    let mut t: Vec<u64> = vec![];
    for i in 0..n_in {
        let mut v = 0u64;
        for s in 0..(1u64 << n_in) {
            if (s >> i) & 1 == 1 {
                v |= 1 << s;
            }
        }
        t.push(v);
    }
    for g in &c.gates {
        let v = match *g {
            Gate::Xor(x, y) => t[x] ^ t[y],
            Gate::And(x, y) => t[x] & t[y],
            Gate::Not(x) => !t[x] & mask,
        };
        t.push(v);
    }
    t
}

/// Describes every AND gate with an operand that always carries the same value (constant),
/// with two operands that always carry the same / the opposite value, or with the same operand
/// values as an earlier AND gate.
fn degenerate_and_gates(c: &Circuit) -> Vec<String> {
    let n_in: usize = c.input_gates.iter().sum();
    let mask: u64 = if n_in == 6 { !0 } else { (1u64 << (1 << n_in)) - 1 };
    let t = truth_tables(c);
    let mut out = vec![];
    let mut seen: Vec<(u64, u64, usize)> = vec![];
    for (i, g) in c.gates.iter().enumerate() {
        if let Gate::And(x, y) = *g {
            let w = i + n_in;
            for o in [x, y] {
                if t[o] == 0 || t[o] == mask {
                    out.push(format!("AND {w}=({x},{y}): operand {o} is constant {}", t[o] != 0));
                }
            }
            if t[x] == t[y] {
                out.push(format!("AND {w}=({x},{y}): both operands always carry the same value"));
            }
            if t[x] == !t[y] & mask {
                out.push(format!("AND {w}=({x},{y}): the operands are negations of each other"));
            }
            let key = (t[x].min(t[y]), t[x].max(t[y]));
            if let Some((_, _, p)) = seen.iter().find(|(a, b, _)| (*a, *b) == key) {
                out.push(format!("AND {w}=({x},{y}) has the same two operand values as AND {p}"));
            }
            seen.push((key.0, key.1, w));
        }
    }
    out
}

fn dump(c: &Circuit) -> String {
    let n_in: usize = c.input_gates.iter().sum();
    let mut s = String::new();
    for (i, g) in c.gates.iter().enumerate() {
        s += &format!("  w{} = {:?}\n", i + n_in, g);
    }
    s
}

/// DEFECT 1 (XOR gate of the AND-factoring rewrite is not folded).
///
/// `(a & b) ^ (a & c)` is rewritten to `a & (b ^ c)`. The XOR `b ^ c` is emitted raw unless the
/// shallow `optimize_xor` folds it, so the rewrites of `push_xor` (`(b ^ a) ^ b == a`,
/// `(c ^ d) ^ (c ^ !d) == true`, ...) are skipped. The AND gate then has an operand that is an
/// alias of its other operand, or that is constant.
///
/// Correct behaviour: both programs are equal to `a` and need 0 AND gates - exactly what the
/// compiler produces for the factored spellings `a & ((b ^ a) ^ b)` and
/// `a & ((c ^ d) ^ (c ^ !d))`.
#[test]
fn factoring_rewrite_leaves_and_gate_with_aliased_or_constant_operand() {
    // a & b ^ a & (b ^ a) == a & (b ^ b ^ a) == a & a == a
    let p1 = "pub fn main(a: bool, b: bool) -> bool { (a & b) ^ (a & (b ^ a)) }";
    let ref1 = "pub fn main(a: bool, b: bool) -> bool { a & (b ^ (b ^ a)) }";
    // a & (c ^ d) ^ a & (c ^ !d) == a & true == a
    let p2 = "pub fn main(a: bool, c: bool, d: bool) -> bool { (a & (c ^ d)) ^ (a & (c ^ !d)) }";
    let ref2 = "pub fn main(a: bool, c: bool, d: bool) -> bool { a & ((c ^ d) ^ (c ^ !d)) }";
    assert_eq!(ssa(ref1).and_gates(), 0);
    assert_eq!(ssa(ref2).and_gates(), 0);
    let (c1, c2) = (ssa(p1), ssa(p2));
    println!("{p1}\n{}{:?}", dump(&c1), degenerate_and_gates(&c1));
    println!("{p2}\n{}{:?}", dump(&c2), degenerate_and_gates(&c2));
    // observed: w6 = And(w0, w5) with w5 = Xor(w1, Xor(w1, w0)), i.e. And(a, a)
    assert_eq!(degenerate_and_gates(&c1), Vec::<String>::new());
    // observed: w9 = And(w0, w8) with w8 = Xor(Xor(c, d), Xor(c, !d)), i.e. And(a, true)
    assert_eq!(degenerate_and_gates(&c2), Vec::<String>::new());
    assert_eq!((c1.and_gates(), c2.and_gates()), (0, 0));
}

/// DEFECT 1, consequence for data movement (same root cause as the test above).
///
/// Reading an array at a constant index / selecting with a constant condition is a mux with a
/// constant selector and must return one of its data inputs unchanged. If the two data inputs
/// are AND gates that share an operand, `push_mux(0, x0, x1)` computes `x0 ^ (x0 ^ x1)` through
/// the factoring rewrite twice and returns a NEW gate `And(a, c ^ (c ^ b))` instead of the
/// existing wire `x1 = And(a, b)`.
///
/// Correct behaviour: `arr[0]` is the wire of `a & b`; the circuits need exactly as many AND
/// gates as the programs without the array / the `if false`.
#[test]
fn constant_index_read_of_and_gates_is_not_free() {
    let reference = "pub fn main(a: bool, b: bool, c: bool) -> (bool, bool) { (a & b, a & b) }";
    let read = "pub fn main(a: bool, b: bool, c: bool) -> (bool, bool) { let arr = [a & b, a & c]; (arr[0], a & b) }";
    let cond = "pub fn main(a: bool, b: bool, c: bool) -> (bool, bool) { let x = a & b; let y = a & c; (if false { y } else { x }, x) }";
    let bytes = "pub fn main(a: u8, b: u8, c: u8) -> [u8; 3] { let arr = [a & b, a & c]; [arr[0], arr[1], arr[0]] }";
    let bytes_ref = "pub fn main(a: u8, b: u8, c: u8) -> [u8; 3] { [a & b, a & c, a & b] }";
    let (r, c1, c2) = (ssa(reference), ssa(read), ssa(cond));
    println!("{read}\n{}{:?}", dump(&c1), degenerate_and_gates(&c1));
    assert_eq!(r.and_gates(), 1);
    // observed: 2 AND gates each, And(a, b) and And(a, c ^ (c ^ b)):
    // "no two AND gates have the same pair of operands" holds only because the second operand
    // is an unfolded alias of b.
    assert_eq!(degenerate_and_gates(&c1), Vec::<String>::new());
    assert_eq!(degenerate_and_gates(&c2), Vec::<String>::new());
    assert_eq!((c1.and_gates(), c2.and_gates()), (1, 1));
    // observed: 24 instead of 16 AND gates
    assert_eq!(ssa(bytes).and_gates(), ssa(bytes_ref).and_gates());
}

/// DEFECT 2 (AND gate of the AND-factoring rewrite is not folded).
///
/// The AND gate `a1 & (a2 ^ b2)` of the rewrite only goes through the shallow `optimize_and`, so
/// the absorption rules of `push_and` (`(w & z) & w == w & z`, `(!w & z) & w == false`) are
/// skipped.
///
/// Correct behaviour: `r` is `false` (0 AND gates, as for the spelling `a & (p ^ q)`), and
/// the first program is `w & z` (1 AND gate).
#[test]
fn factoring_rewrite_skips_and_absorption() {
    // (a & p) ^ (a & q) == a & (p ^ q) == (w & z) & w == w & z
    let absorb = "pub fn main(p: bool, q: bool, z: bool) -> bool { let w = p ^ q; let a = w & z; (a & p) ^ (a & q) }";
    let absorb_ref = "pub fn main(p: bool, q: bool, z: bool) -> bool { let w = p ^ q; let a = w & z; a & (p ^ q) }";
    // (a & p) ^ (a & q) == a & (p ^ q) == (!w & z) & w == false
    let contra = "pub fn main(p: bool, q: bool, z: bool, x: bool) -> bool { let w = p ^ q; let a = !w & z; let r = (a & p) ^ (a & q); r & x }";
    let contra_ref = "pub fn main(p: bool, q: bool, z: bool, x: bool) -> bool { let w = p ^ q; let a = !w & z; let r = a & (p ^ q); r & x }";
    assert_eq!(ssa(absorb_ref).and_gates(), 1);
    assert_eq!(ssa(contra_ref).and_gates(), 0);
    let (c1, c2) = (ssa(absorb), ssa(contra));
    println!("{absorb}\n{}", dump(&c1));
    println!("{contra}\n{}{:?}", dump(&c2), degenerate_and_gates(&c2));
    // observed: w10 = And(w9, x) where w9 = And(And(!w, z), w) is constant false
    assert_eq!(degenerate_and_gates(&c2), Vec::<String>::new());
    // observed: (2, 3): w7 = And(And(w, z), w) and the three gates above
    assert_eq!((c1.and_gates(), c2.and_gates()), (1, 0));
}

/// DEFECT 3 (Bristol exporter; outside src/circuit.rs).
///
/// `compile_to_bristol` drops the 161 panic outputs but keeps every gate, so all gates that
/// only feed the panic record (overflow / division-by-zero / out-of-bounds conditions and the
/// muxes of the panic location) stay in the exported circuit without contributing to any
/// output. The doc comment of `format_as_bristol` says "the panic gates are removed from the
/// circuit".
///
/// Correct behaviour: every gate of the exported circuit (apart from the two constant gates)
/// is reachable from an output; for `x + y` the carry-out gates (3 AND gates) would be pruned.
#[test]
fn bristol_export_keeps_gates_that_only_feed_the_panic_record() {
    let src = "pub fn main(x: u8, y: u8) -> u8 { x + y }";
    let dir = tempfile::tempdir().unwrap();
    let path = dir.path().join("add.txt");
    garble_lang::compile_to_bristol(src, &path).unwrap();
    let c = garble_lang::compile_bristol_to_circuit(&path).unwrap();
    let n_in: usize = c.input_gates.iter().sum();
    let mut used = vec![false; n_in + c.gates.len()];
    let mut stack = c.output_gates.clone();
    while let Some(w) = stack.pop() {
        if used[w] {
            continue;
        }
        used[w] = true;
        if w >= n_in {
            match c.gates[w - n_in] {
                Gate::Xor(x, y) | Gate::And(x, y) => {
                    stack.push(x);
                    stack.push(y);
                }
                Gate::Not(x) => stack.push(x),
            }
        }
    }
    // (the first two gates are the constants false / true)
    let dead: Vec<String> = c
        .gates
        .iter()
        .enumerate()
        .skip(2)
        .filter(|(i, _)| !used[i + n_in])
        .map(|(i, g)| format!("w{} = {g:?}", i + n_in))
        .collect();
    // observed: 5 dead gates, 3 of them AND gates (of 22)
    assert_eq!(dead, Vec::<String>::new());
}
