//! Property C16: a circuit that passes validation can be evaluated safely, and validation accepts
//! every circuit produced by the compiler and by the SSA-to-register conversion.
//!
//! Copy to tests/hunt_c16.rs and run with `cargo test --offline --test hunt_c16`.
//! Every test below FAILS on the unchanged code.

use garble_lang::{
    CircuitKind, CompileOptions, compile, compile_with_options,
    circuit_type::CircuitType,
    register_circuit::{Circuit as RegCircuit, Input, Inst, Op, Reg},
};
use std::panic::{AssertUnwindSafe, catch_unwind};

/// Programs that type-check and whose parameters all have a size of 0 bits.
const ZERO_BIT_INPUT_PROGRAMS: &[&str] = &[
    "pub fn main(x: ()) -> bool { true }",
    "pub fn main(x: (), y: ()) -> bool { true }",
    "pub fn main(x: [u8; 0]) -> bool { true }",
    "pub fn main(x: [(); 3]) -> bool { true }",
    "struct S {}\npub fn main(x: S) -> bool { true }",
];

/// DEFECT 1a: the compiler produces (SSA) circuits that its own validation rejects and whose
/// evaluation panics, whenever all parameters of `main` are zero-sized.
///
/// Correct behaviour: either the program is rejected with a compile-time error, or the circuit
/// produced by the compiler is accepted by `Circuit::validate` and can be evaluated (also through
/// `Evaluator::run`) on inputs of the declared shape without panicking, returning one bit per
/// output gate.
///
/// Observed: `compile` succeeds with `input_gates == [0]` (or `[]` / `[0, 0, 0]`), the first gate
/// is the constant-false gate `Xor(0, 0)` at wire 0, which refers to itself, `validate()` returns
/// `Err(InvalidGate(0))` (resp. `Err(EmptyInputs)`) and `eval` panics with
/// "called `Option::unwrap()` on a `None` value" (src/circuit.rs:218).
#[test]
fn compiled_circuit_with_zero_input_bits_is_rejected_by_validate_and_panics_in_eval() {
    for prg in ZERO_BIT_INPUT_PROGRAMS {
        let Ok(compiled) = compile(prg) else {
            continue; // rejecting such programs at compile time would be fine
        };
        let circuit = compiled.circuit.unwrap_ssa_ref();
        assert_eq!(
            circuit.validate(),
            Ok(()),
            "validate rejects the circuit that the compiler produced for:\n{prg}"
        );
        let inputs: Vec<Vec<bool>> = circuit.input_gates.iter().map(|n| vec![false; *n]).collect();
        let out = catch_unwind(AssertUnwindSafe(|| circuit.eval(&inputs)));
        assert_eq!(
            out.map_err(|_| "eval panicked").map(|o| o.len()),
            Ok(circuit.output_gates.len()),
            "{prg}"
        );
        // The same through the public evaluator (which pre-checks parties and bit counts):
        if compiled.main.params.len() == circuit.input_gates.len() {
            let run = catch_unwind(AssertUnwindSafe(|| {
                let mut ev = compiled.evaluator();
                for _ in 0..compiled.main.params.len() {
                    ev.parse_literal(arg_for(prg)).unwrap();
                }
                ev.run().map(|_| ())
            }));
            assert!(run.is_ok(), "Evaluator::run panicked for:\n{prg}");
        }
    }
}

/// A literal of the (zero-sized) parameter type used by the program.
fn arg_for(prg: &str) -> &'static str {
    if prg.contains("S {}") { "S {}" } else { "()" }
}

/// DEFECT 1b (same root cause as 1a, different symptom): compiling the same programs with
/// `CircuitKind::Register` panics inside the SSA-to-register conversion
/// ("no entry found for key", src/register_circuit.rs:336), because the constant gate `Xor(0, 0)`
/// at wire 0 refers to a wire that has no register.
///
/// Correct behaviour: a compile-time error, or a register circuit that `validate` accepts and
/// that evaluates without panicking.
#[test]
fn compiling_zero_input_bits_program_to_register_circuit_panics() {
    for prg in ZERO_BIT_INPUT_PROGRAMS {
        let res = catch_unwind(AssertUnwindSafe(|| {
            compile_with_options(
                prg,
                CompileOptions {
                    circuit_kind: CircuitKind::Register,
                    ..Default::default()
                },
            )
        }));
        let Ok(res) = res else {
            panic!("compile_with_options(.., Register) panicked for:\n{prg}");
        };
        if let Ok(compiled) = res {
            let CircuitType::Register(circuit) = &compiled.circuit else {
                panic!("expected a register circuit");
            };
            assert_eq!(circuit.validate(), Ok(()), "{prg}");
            let inputs: Vec<Vec<bool>> =
                circuit.input_regs.iter().map(|n| vec![false; *n]).collect();
            let out = catch_unwind(AssertUnwindSafe(|| circuit.eval(&inputs)));
            assert_eq!(
                out.map_err(|_| "eval panicked").map(|o| o.len()),
                Ok(circuit.output_regs.len()),
                "{prg}"
            );
        }
    }
}

/// DEFECT 2: `register_circuit::Circuit::validate` checks "set before use" for the operands of
/// instructions, but not for the output registers: a circuit whose output register is in range
/// but is never written by any instruction is accepted, and `eval` then reads the undefined
/// register (silently yielding the `false` the register file was initialised with).
///
/// Correct behaviour: `validate` rejects the circuit (e.g. with `InvalidOutput(Reg(1))` or
/// `InvalidRegAccess`), because evaluation must only read registers that have been defined.
#[test]
fn register_validate_accepts_output_register_that_is_never_written() {
    let circuit = RegCircuit {
        input_regs: vec![1],
        insts: vec![Inst {
            out: Reg(0),
            op: Op::Input(Input { party: 0, input: 0 }),
        }],
        max_reg_count: 2,
        // Reg(1) exists (1 < max_reg_count), but no instruction ever writes to it:
        output_regs: vec![Reg(1)],
        and_ops: 0,
    };
    assert!(
        circuit.validate().is_err(),
        "validate accepted a circuit whose output register Reg(1) is never defined; \
         eval(&[vec![true]]) = {:?}",
        circuit.eval(&[vec![true]])
    );
}
