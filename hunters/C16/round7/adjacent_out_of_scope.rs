// NOT C16 defects. Observations made while hunting for C16, each one a panic on a circuit value
// that *passes validation* (or inside validation itself), but in a function that is not the
// evaluation the property talks about. Each test FAILS on the unchanged code.
use garble_lang::circuit::{Circuit, Gate};
use garble_lang::circuit_type::CircuitType;
use garble_lang::register_circuit::{self as rc, Input, Inst, Op, Reg};
use std::panic::{AssertUnwindSafe, catch_unwind};

fn one_input_reg_circuit(input_regs: Vec<usize>, max_reg_count: usize) -> rc::Circuit {
    rc::Circuit {
        input_regs,
        insts: vec![Inst {
            out: Reg(0),
            op: Op::Input(Input { party: 0, input: 0 }),
        }],
        max_reg_count,
        output_regs: vec![Reg(0)],
        and_ops: 0,
    }
}

/// `register_circuit::Circuit::validate` allocates `vec![false; max_reg_count]` before looking at
/// anything else that could reject the circuit, so a (deserialized) circuit that declares
/// usize::MAX registers makes validate panic with "capacity overflow" (and for merely huge values
/// such as 1 << 45 the allocation failure aborts the process). Expected: an `Err(..)`, e.g.
/// because more registers are declared than instructions could ever write.
#[test]
fn adjacent_reg_validate_panics_on_huge_register_count() {
    let r = one_input_reg_circuit(vec![1], usize::MAX);
    let v = catch_unwind(AssertUnwindSafe(|| r.validate()));
    assert!(v.is_ok(), "validate panicked instead of returning a Result");
}

/// A register circuit does not have to contain an Input instruction for every declared input
/// bit (validation accepts it, eval is fine), but `CircuitType::ops` computes
/// `insts.len() - total_inputs()`: panics in debug builds, wraps to 2^64 - 1 in release builds.
#[test]
fn adjacent_ops_underflows_for_validated_register_circuit() {
    let r = one_input_reg_circuit(vec![2], 1);
    assert_eq!(r.validate(), Ok(()));
    assert_eq!(r.eval(&[vec![true, false]]), vec![true]);
    let c = CircuitType::Register(r);
    let ops = catch_unwind(AssertUnwindSafe(|| c.ops()));
    assert_eq!(ops.ok(), Some(0), "1 instruction, all of them inputs: 0 other operations");
}

/// Decoding the output of a validated hand-built circuit (which need not have the 161 panic
/// bits of compiled circuits) panics in `EvalPanic::parse` (slice index), and 161 + n `false`
/// bits panic with "Invalid panic reason: 0" although `has_panicked` is false. Expected:
/// `Err(EvalError::OutputTypeMismatch { .. })` / a decoded value.
#[test]
fn adjacent_output_decoding_panics_on_short_or_zero_panic_bits() {
    let p = garble_lang::compile("pub fn main(a: bool) -> bool { a }").unwrap();
    let c = Circuit {
        input_gates: vec![1],
        gates: vec![Gate::Not(0)],
        output_gates: vec![1],
    };
    assert_eq!(c.validate(), Ok(()));
    let ct = CircuitType::Ssa(c);
    let mut ev = garble_lang::eval::Evaluator::new(&p.program, &p.main, &ct, &p.const_sizes);
    ev.set_bool(true);
    let out = ev.run().unwrap(); // (the evaluation itself is fine)
    let decoded = catch_unwind(AssertUnwindSafe(|| bool::try_from(out).is_ok()));
    assert!(decoded.is_ok(), "decoding 1 output bit panicked");
    let decoded = catch_unwind(AssertUnwindSafe(|| p.parse_output(&[false; 162]).is_ok()));
    assert!(decoded.is_ok(), "decoding 162 false bits panicked");
}

/// `format_as_bristol` slices `output_gates[161..]` without a check: every validated circuit
/// with fewer than 161 outputs (e.g. every circuit imported from a Bristol file) panics.
#[test]
fn adjacent_bristol_export_panics_for_circuits_without_panic_bits() {
    let c = Circuit {
        input_gates: vec![1],
        gates: vec![Gate::Not(0)],
        output_gates: vec![1],
    };
    assert_eq!(c.validate(), Ok(()));
    let dir = tempfile::tempdir().unwrap();
    let path = dir.path().join("x.txt");
    let v = catch_unwind(AssertUnwindSafe(|| c.format_as_bristol(&path).is_ok()));
    assert!(v.is_ok(), "format_as_bristol panicked");
}
