// Hunt for violations of property C16 ("a circuit that passes validation can be evaluated
// safely; validation accepts every circuit produced by the compiler and by the SSA-to-register
// conversion").
//
// RESULT: no defect found. There is deliberately no #[test] in this file, because no behaviour
// of the unchanged code was found that contradicts the property statement.
//
// The sweeps that were run (all green, debug and release) are in `sweeps_passing.rs` and
// `sweeps_serde_passing.rs` next to this file (copy to tests/ to run them; the serde one needs
// `--features serde`). Behaviour that is *adjacent* to the property (panics in functions other
// than validate-accepted eval) is demonstrated in `adjacent_out_of_scope.rs` and described in
// notes.md; none of it contradicts C16 as stated.
