//! Property C17: ill-typed programs are rejected - every static rule violation is a type error.
//!
//! One #[test] per distinct defect; each test FAILS on the unchanged code (the programs are
//! accepted by `garble_lang::check`, although they violate a static rule).
//!
//! Copy to `tests/hunt.rs` and run `cargo test --offline --test hunt`.

use garble_lang::check;

fn is_rejected(prg: &str) -> bool {
    // a panic inside the checker is not a "type error" either, but none of the programs below panics
    check(prg).is_err()
}

/// D1: A binding (or any non-literal expression) whose type is an *unspecified* number type can be
/// used as a value of ANY number type, and even of several different number types at once. Only
/// literal nodes are re-typed, the bound value itself stays a 32 bit number and is truncated /
/// reinterpreted silently. In particular the range check of literals is bypassed:
/// `a == 263` and `let x: u8 = 263;` are rejected, but `let x = 263; a == x` is accepted, and
/// `main(7)` evaluates to `true` (263 mod 256 == 7).
///
/// Correct behaviour: a type error. According to the docs an unsuffixed number whose type cannot be
/// figured out is an `i32` ("no automatic type coercions"), so `x: i32` cannot be compared with
/// `a: u8`; and if `x` is inferred to be `u8`, 263 is not a `u8`.
#[test]
fn d1_unspecified_let_binding_is_coerced_to_any_number_type() {
    let prg = "pub fn main(a: u8) -> bool { let x = 263; a == x }";
    assert!(
        is_rejected(prg),
        "accepted (and main(7) == true): {prg}"
    );
}

/// D1 (same root cause, other sites where a value of unspecified number type is relabelled without
/// being converted). All of these are accepted by the unchanged code; each should be a type error
/// (operand / annotation types that do not agree, or a literal that is out of range):
///  - one `let` variable used as `u8` and as `u16` at the same time,
///  - the loop variable of a `for` over unsuffixed literals (300 is added to a `u8` as 44),
///  - the variable bound by a `match` on an unsuffixed literal,
///  - `let mut` with nested literals (only the outer level is defaulted to i32): `x.1.1` is used as
///    `u8` and as `u64`,
///  - tuple / array access into a collection of unsuffixed literals: `let b: u8 = (263, 1).0`
///    is accepted and `b == 7`, whereas `let b: u8 = 263` is rejected.
#[test]
fn d1_variants_same_root_cause() {
    let prgs = [
        "pub fn main(a: u8) -> u16 { let x = 1; let b: u8 = x; let c: u16 = x; c + (b as u16) }",
        "pub fn main(a: u8) -> u8 { let mut s = 0u8; for i in [1, 2, 300] { s = s + i; } s }",
        "pub fn main(a: u8) -> u8 { match 263 { x => a + x } }",
        "pub fn main(a: u8) -> u64 { let mut x = (1, (2, 263)); let p: u8 = x.1.1; let q: u64 = x.1.1; q + (p as u64) }",
        "pub fn main(a: u8) -> u8 { let b: u8 = (263, 1).0; b }",
        "pub fn main(a: u8) -> u8 { let b: u8 = [263, 1][0]; b }",
    ];
    let accepted: Vec<_> = prgs.iter().filter(|p| !is_rejected(p)).collect();
    assert!(accepted.is_empty(), "accepted: {accepted:#?}");
}

/// D2: The type suffix of a number (or range) pattern is not compared with the type of the matched
/// value. Only its signedness is looked at (`1i8` is rejected for a `u8`), so a `u16` literal pattern
/// is accepted for a `u8` scrutinee, an `i8` literal pattern for an `i64` scrutinee, an unsigned
/// suffixed pattern (`1u8`) for an `i8` scrutinee, and `1u16..9u16` for a `u8` scrutinee.
///
/// Correct behaviour: a type error (the type of the pattern does not agree with the type of the
/// matched expression), like for the expression `a == 1u16`, which is rejected.
#[test]
fn d2_pattern_suffix_is_not_checked_against_scrutinee_type() {
    let prg = "pub fn main(a: u8) -> u8 { match a { 1u16 => 1u8, _ => 0u8 } }";
    assert!(is_rejected(prg), "accepted: {prg}");
}

/// D3: A second top level definition with the same name silently replaces the first one (the
/// parser stores definitions in a map). The replaced function is neither type-checked nor reported
/// as unused, so its body may contain unknown identifiers, ill-typed operands or a recursive call.
/// (The same holds for duplicate struct / enum / const definitions, e.g. a struct with a field of
/// an unknown type.)
///
/// Correct behaviour: a type error (unknown identifier `y` / operands `u8 + bool` / unused function
/// - or simply "duplicate definition", as for duplicate struct fields and duplicate fn params).
#[test]
fn d3_duplicate_fn_definition_hides_an_unchecked_function() {
    let prg = "
fn f(x: u8) -> u8 { f(y) + true }
fn f(x: u8) -> u8 { x }
pub fn main(a: u8) -> u8 { f(a) }
";
    assert!(is_rejected(prg), "accepted: {prg}");
}

/// D4: An enum may declare the same variant name twice (with different shapes). The checker keeps
/// the variants in a map (the last one wins), the compiler looks the variant up in the declaration
/// list (the first one wins). `E::A(a)` is accepted by the checker, although the first `A` is a
/// unit variant; compiling the program below panics (`Option::unwrap()` on `None`,
/// src/compile.rs:738), and `pub fn main(a: u8) -> E { E::A(a) }` evaluates to `E::A`.
///
/// Correct behaviour: a type error (duplicate variant, analogous to `DuplicateStructField`), or at
/// least `ExpectedUnitVariantFoundTupleVariant` for the use that does not fit the first variant.
#[test]
fn d4_duplicate_enum_variant_is_accepted() {
    let prg = "
enum E { A, A(u8), B }
pub fn main(a: u8) -> u8 { let e: E = E::A(a); match e { E::A(x) => x, E::B => 0u8 } }
";
    assert!(is_rejected(prg), "accepted: {prg}");
}
