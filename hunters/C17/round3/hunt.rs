//! Property C17: ill-typed programs are rejected by the type checker.
//!
//! Each test below is a minimal program that breaks a static typing rule (a number that is not a
//! value of the type it is used with), is nevertheless ACCEPTED by `garble_lang::check` on the
//! unchanged code, and is then compiled to a circuit that silently computes with a truncated
//! value. Every test FAILS on the unchanged code.
//!
//! Copy to `tests/hunt.rs` and run with `cargo test --offline --test hunt`.

use garble_lang::{check, compile};

fn is_rejected(prg: &str) -> bool {
    check(prg).is_err()
}

/// Evaluates `main` (all arguments as Garble literals) and renders the result as a literal.
fn eval(prg: &str, args: &[&str]) -> String {
    let compiled = compile(prg).expect("program does not compile");
    let mut eval = compiled.evaluator();
    for arg in args {
        eval.parse_literal(arg).expect("invalid argument");
    }
    let output = eval.run().expect("evaluation failed");
    output.into_literal().expect("no literal").to_string()
}

/// Defect 1a: a number without type suffix that is bound to a variable by `let` (or by a `for` /
/// `match` / tuple pattern) is never checked against the type it is later used with.
///
/// `let p: u8 = 300;` is (correctly) a type error ("Expected type u8, but found unspecified
/// unsigned int"), but going through an immutable binding first hides the error:
/// `let x = 300; let p: u8 = x;` is accepted and `p` evaluates to 44 (300 mod 256).
///
/// Correct behaviour: the program is rejected with a type error (300 is not a u8; according to
/// the docs `x` is an i32, which is not a u8 either).
#[test]
fn untyped_number_bound_by_let_must_fit_the_type_it_is_used_with() {
    // control: the direct form is rejected
    assert!(is_rejected(
        "pub fn main(a: u8) -> u8 { let p: u8 = 300; p + a }"
    ));

    let prg = "pub fn main(a: u8) -> u8 { let x = 300; let p: u8 = x; p + a }";
    if !is_rejected(prg) {
        // (what the accepted program computes: 300 is silently truncated to 44)
        println!("accepted, main(0) = {}", eval(prg, &["0"]));
    }
    assert!(is_rejected(prg), "`let x = 300; let p: u8 = x;` was accepted");

    // the same hole for a signed type, for an argument and for an operand:
    assert!(
        is_rejected("pub fn main(a: u8) -> i32 { let x = 4294967295; x }"),
        "4294967295 was accepted as an i32 (evaluates to -1)"
    );
    assert!(
        is_rejected("pub fn main(a: u8) -> u8 { let y = 300; f(y) + a } fn f(x: u8) -> u8 { x }"),
        "300 was accepted as a u8 argument"
    );
    assert!(
        is_rejected("pub fn main(a: u8) -> bool { let y = 300; a == y }"),
        "u8 == 300 was accepted (is `true` for a = 44)"
    );
    // ... and for the variable of a loop over a range that does not fit into the type:
    assert!(
        is_rejected(
            "pub fn main(a: u8) -> u8 { let mut r: u8 = a; for k in 0..300 { r = k; } r }"
        ),
        "the elements of 0..300 were accepted as u8 (r ends up as 43)"
    );
}

/// Defect 1b: the same missing check without any `let`: an element / field that is projected
/// out of a collection of untyped numbers takes on whatever number type is expected, but only
/// direct number literals are compared with the range of that type.
///
/// `[1, 300]` is (correctly) not accepted as a `[u8; 2]` and `(1, 300)` is not a `(u8, u8)`, but
/// `[1, 300][i]` and `(1, 300).1` are accepted as `u8` and evaluate to 44.
///
/// (Every binding of these programs is annotated; they result from the well-typed
/// `... -> u16 { [1, 300][i] }` by the single rule-breaking edit `u16` -> `u8`.)
///
/// Correct behaviour: both programs are rejected with a type error.
#[test]
fn element_of_untyped_collection_must_fit_the_type_it_is_used_with() {
    // controls: the collections themselves are rejected
    assert!(is_rejected("pub fn main(i: usize) -> [u8; 2] { [1, 300] }"));
    assert!(is_rejected("pub fn main(i: usize) -> (u8, u8) { (1, 300) }"));

    let prg = "pub fn main(i: usize) -> u8 { [1, 300][i] }";
    if !is_rejected(prg) {
        println!("accepted, main(1) = {}", eval(prg, &["1"]));
    }
    assert!(is_rejected(prg), "`[1, 300][i]` was accepted as a u8");

    let prg = "pub fn main(i: usize) -> u8 { (1, 300).1 }";
    assert!(is_rejected(prg), "`(1, 300).1` was accepted as a u8");

    let prg = "pub fn main(i: usize) -> u8 { [300; 2][i] }";
    assert!(is_rejected(prg), "`[300; 2][i]` was accepted as a u8");
}

/// Defect 2: `let mut` gives numbers without a type suffix the type i32 (so that the variable
/// has one fixed type), but only on the outermost level of the type of the variable.
///
/// `let mut x = (1, 300); let p: u8 = x.1;` is (correctly) rejected: "Expected type u8, but
/// found i32". With one more level of nesting the inner numbers keep their unspecified type in
/// the type of `x`, so the i32 field can be used as a u8 (and evaluates to 44), and a number
/// that does not fit into 32 bits can be assigned to an element.
///
/// Correct behaviour: all programs are rejected ("Expected type u8, but found i32" and so on).
#[test]
fn let_mut_fixes_the_type_of_nested_untyped_numbers() {
    // control: one level is handled
    assert!(is_rejected(
        "pub fn main(i: usize) -> u8 { let mut x = (1, 300); let p: u8 = x.1; p }"
    ));

    let prg = "pub fn main(i: usize) -> u8 { let mut x = (1, (300, 3)); let p: u8 = x.1.0; p }";
    if !is_rejected(prg) {
        println!("accepted, main(0) = {}", eval(prg, &["0"]));
    }
    assert!(is_rejected(prg), "the i32 field x.1.0 was accepted as a u8");

    assert!(
        is_rejected(
            "pub fn main(i: usize) -> u8 { let mut x = [[300, 3], [1, 2]]; let p: u8 = x[i][i]; p }"
        ),
        "the i32 element x[i][i] was accepted as a u8"
    );
    assert!(
        is_rejected(
            "pub fn main(i: usize) -> u8 { let mut x = [(300, 3), (1, 2)]; let p: u8 = x[i].0; p }"
        ),
        "the i32 field x[i].0 was accepted as a u8"
    );
    // a number that is no i32 is assigned to an element of a [[i32; 2]; 2]:
    assert!(
        is_rejected(
            "pub fn main(i: usize) -> u8 { let mut x = [[300, 3], [1, 2]]; x[0][0] = 5000000000; 0u8 }"
        ),
        "5000000000 was accepted as an element of an i32 array (is stored as 705032704)"
    );
}
