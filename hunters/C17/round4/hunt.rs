//! Property C17: ill-typed programs are rejected by the type checker.
//! Every test below FAILS on the unchanged code (the program is accepted by `check`).
//! Copy to tests/hunt.rs and run `cargo test --offline --test hunt`.

use garble_lang::{check, compile};

/// Evaluates `main` with the given argument literals and prints the result (for the messages).
fn eval(prg: &str, args: &[&str]) -> String {
    let Ok(compiled) = compile(prg) else {
        return "<does not compile>".to_string();
    };
    let mut eval = compiled.evaluator();
    for arg in args {
        eval.parse_literal(arg).unwrap();
    }
    match eval.run().and_then(|out| out.into_literal()) {
        Ok(literal) => literal.to_string(),
        Err(e) => format!("{e:?}"),
    }
}

/// D1: a number literal without a type suffix that never meets a typed operand keeps the
/// "unspecified" number type and is compiled with 32 bits, but its value is never checked against
/// these 32 bits: `4294967296 == 0` is accepted and evaluates to `true`, `-3000000000 < 0` to
/// `false`, `4294967296 as u64` to `0`, `match 4294967297 { 1 => .. }` takes the arm of `1`.
///
/// Correct behaviour: a type error (the literal is not a value of the 32-bit type it is given),
/// like for `let a: u32 = 4294967296;`, `let mut a = 4294967296;` (both rejected) or for a number
/// pattern that is out of range (rejected by `expect_pattern_in_range`).
#[test]
fn d1_untyped_literal_that_does_not_fit_32_bits_is_rejected() {
    let programs = [
        "pub fn main(x: u8) -> bool { 4294967296 == 0 }",
        "pub fn main(x: u8) -> bool { -3000000000 < 0 }",
        "pub fn main(x: u8) -> u64 { 4294967296 as u64 }",
        "pub fn main(x: u8) -> u8 { match 4294967297 { 1 => 7, _ => 0 } }",
        "pub fn main(x: u8) -> bool { let r = 4294967296..4294967298; r[0] == 0 }",
    ];
    for prg in programs {
        assert!(
            check(prg).is_err(),
            "accepted (and evaluates to {}): {prg}",
            eval(prg, &["0"])
        );
    }
}

/// D2: an element read from a literal collection of untyped numbers (tuple field, array element,
/// repeated element) takes on any number type that is expected of it without a check of the value
/// it holds: `let z: u8 = (1, 300).1;` is accepted and `z` is 44.
/// (Most likely the same root cause as the known `[1, 300][i] as u8`, but without any cast: the
/// u8 is produced by the type checker.)
///
/// Correct behaviour: a type error, like for `let z: u8 = 300;` or `let t: (u8, u8) = (1, 300);`.
#[test]
fn d2_out_of_range_number_read_from_a_literal_collection_is_rejected() {
    let programs = [
        "pub fn main(x: u8) -> u8 { let z: u8 = (1, 300).1; z }",
        "pub fn main(x: u8) -> u8 { x + [300; 2][1] }",
        "pub fn main(x: i8) -> i8 { let z: i8 = [1, 200][0]; z }",
    ];
    for prg in programs {
        assert!(
            check(prg).is_err(),
            "accepted (and evaluates to {}): {prg}",
            eval(prg, &["0"])
        );
    }
}

/// D3 (low confidence): a struct and an enum with the same name are both accepted, although
/// duplicate top-level definitions are meant to be rejected (two structs, two enums, two fns and
/// two consts of the same name are). Every use of the name as a type silently means the struct,
/// the enum type can only be reached through its literals and patterns.
///
/// Correct behaviour: an error for the second definition of the type name `A`.
#[test]
fn d3_struct_and_enum_with_the_same_name_are_rejected() {
    let prg = "
struct A { x: u8 }
enum A { X, Y(u8) }
pub fn main(a: A) -> u8 {
    match A::Y(a.x) { A::X => 0, A::Y(y) => y }
}";
    assert!(check(prg).is_err(), "accepted: {prg}");
}
