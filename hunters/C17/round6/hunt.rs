//! Property C17 hunt: one failing test per distinct defect found on the unchanged tree.
use garble_lang::check;
use std::{sync::mpsc, thread, time::Duration};

/// Defect 1: the irrefutability check of `let` / `for` patterns (added with "the pattern of a
/// let, for-each or for-join binding must be irrefutable") takes 2^k steps for a pattern with k
/// number patterns that each cover the whole type (`0..=255` for a `u8`). The fix "the
/// exhaustiveness check does not split a column that no pattern looks at" only covers columns of
/// plain identifiers. k = 18: 0.6s, k = 20: 2.4s, k = 26: minutes, k = 40: never.
///
/// Correct behaviour: the well-typed program is accepted (in time linear in the size of the
/// pattern: one row can never need more than one piece per column).
#[test]
fn irrefutable_let_over_wide_record_with_full_ranges_is_accepted_in_reasonable_time() {
    let n = 26;
    let tys = vec!["u8"; n].join(", ");
    let pat = vec!["0..=255"; n].join(", ");
    let prg = format!("pub fn main(w: ({tys})) -> u8 {{ let ({pat}) = w; 1 }}");
    let (tx, rx) = mpsc::channel();
    thread::spawn(move || {
        let _ = tx.send(check(&prg).is_ok());
    });
    match rx.recv_timeout(Duration::from_secs(10)) {
        Ok(accepted) => assert!(accepted, "the let pattern is irrefutable and must be accepted"),
        Err(_) => panic!("type checker still busy after 10s with an irrefutable let of {n} fields"),
    }
}

/// Defect 2: a struct and an enum with the same name are both accepted ("duplicate definitions
/// ... are rejected" only compares definitions of the same kind). Every type annotation `Foo`
/// silently means the struct, `Foo::A` builds a value of an enum type that cannot be named
/// anywhere, and error messages read "Expected type Foo, but found Foo".
///
/// Correct behaviour: the second definition of the type name `Foo` is an error (as for two
/// structs, two enums, two fns or two consts of the same name).
#[test]
fn struct_and_enum_with_the_same_name_are_rejected() {
    let prg = "
struct Foo { a: u8 }
enum Foo { A, B(u8) }

pub fn main(x: Foo) -> u8 {
    let g = Foo::B(x.a);
    match g {
        Foo::A => 0,
        Foo::B(y) => y,
    }
}
";
    assert!(
        check(prg).is_err(),
        "two type definitions with the same name must not be accepted"
    );
}
