use garble_lang::compile;

fn run(prg: &str, x: i8) -> Result<i8, String> {
    let compiled = compile(prg).map_err(|e| e.prettify(prg))?;
    let mut eval = compiled.evaluator();
    eval.set_i8(x);
    let out = eval.run().map_err(|e| e.prettify(prg))?;
    i8::try_from(out).map_err(|e| e.prettify(prg))
}

#[test]
fn mul_by_negative_literal_at_min() {
    let r = run("pub fn main(x: i8) -> i8 { x * -2i8 }", 64);
    assert_eq!(r, Ok(-128));
}

#[test]
fn mul_var_var_at_min() {
    let prg = "pub fn main(x: i8, y: i8) -> i8 { x * y }";
    let compiled = compile(prg).unwrap();
    let mut eval = compiled.evaluator();
    eval.set_i8(64);
    eval.set_i8(-2);
    let out = eval.run().map_err(|e| e.prettify(prg)).unwrap();
    assert_eq!(i8::try_from(out).map_err(|e| e.prettify(prg)), Ok(-128));
}

#[test]
fn mul_literal_left_at_min() {
    let r = run("pub fn main(x: i8) -> i8 { -4i8 * x }", 32);
    assert_eq!(r, Ok(-128));
}
