//! Known finding C14 / E11 (also observable as C02: a failing operation inside the index is reported although the
//! source evaluates it once without failing).  Copy to /repo/tests/ and run `cargo test --offline --test C14-E11-demo`.
//! FAILS on the current tree: the parser desugars `arr[i] += v` to `arr[i] = arr[i] + v` by cloning the index expression,
//! so an assignment inside the index is executed twice and the read and the write use different elements.
use garble_lang::compile;

#[test]
fn index_of_op_assignment_is_evaluated_twice() {
    let prg = "
pub fn main(a: usize) -> ([u8; 4], usize) {
    let mut arr = [10u8, 20u8, 30u8, 40u8];
    let mut i = a;
    arr[{ i = i + 1usize; i }] += 1u8;
    (arr, i)
}";
    let compiled = compile(prg).unwrap();
    let mut eval = compiled.evaluator();
    eval.parse_literal("0").unwrap();
    let out = eval.run().unwrap().into_literal().unwrap();
    // observed: ([10, 31, 30, 40], 2)
    assert_eq!(format!("{out}"), "([10, 21, 30, 40], 1)");
}
