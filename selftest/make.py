#!/usr/bin/env python3
"""Generates selftest/mutants/*.diff from the specs below (text replacement against the current /repo tree).
Run after /repo changes; the generated diffs are what selftest/run.py applies."""
import difflib
import os
import subprocess
import sys

VERIF = os.path.dirname(os.path.dirname(os.path.abspath(__file__)))
REPO = "/repo"
OUT = os.path.join(VERIF, "selftest", "mutants")
SPECS = []


def M(name, prop, expect, file, old, new, note=""):
    SPECS.append(dict(name=name, prop=prop, expect=expect, edits=[(file, old, new)], note=note))


def M2(name, prop, expect, edits, note=""):
    SPECS.append(dict(name=name, prop=prop, expect=expect, edits=edits, note=note))


def REVERT(name, prop, expect, commit, note=""):
    SPECS.append(dict(name=name, prop=prop, expect=expect, revert=commit, note=note))


exec(open(os.path.join(VERIF, "selftest", "specs.py")).read())


def main():
    os.makedirs(OUT, exist_ok=True)
    for f in os.listdir(OUT):
        if f.endswith(".diff"):
            os.remove(os.path.join(OUT, f))
    n = 0
    for s in SPECS:
        header = "# property: %s\n# expect: %s\n# note: %s\n" % (s["prop"], s["expect"], s["note"])
        if "revert" in s:
            r = subprocess.run(["git", "-C", REPO, "diff", s["revert"], s["revert"] + "^", "--", "src"], stdout=subprocess.PIPE, text=True)
            if r.returncode != 0 or not r.stdout.strip():
                print("SKIP %s: cannot compute revert of %s" % (s["name"], s["revert"]))
                continue
            body = r.stdout
        else:
            body = ""
            bad = False
            by_file = {}
            for (file, old, new) in s["edits"]:
                src = by_file.get(file)
                if src is None:
                    src = open(os.path.join(REPO, file)).read()
                    by_file[file] = src
                    by_file[file + "@orig"] = src
                if src.count(old) != 1:
                    print("SKIP %s: anchor text found %d times in %s" % (s["name"], src.count(old), file))
                    bad = True
                    break
                by_file[file] = src.replace(old, new)
            if bad:
                continue
            for file in [f for f in by_file if not f.endswith("@orig")]:
                a = by_file[file + "@orig"].splitlines(keepends=True)
                b = by_file[file].splitlines(keepends=True)
                body += "".join(difflib.unified_diff(a, b, "a/" + file, "b/" + file))
        with open(os.path.join(OUT, "%s-%s.diff" % (s["prop"], s["name"])), "w") as fh:
            fh.write(header + body)
        n += 1
    print("wrote %d mutants" % n)


if __name__ == "__main__":
    main()
