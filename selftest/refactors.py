#!/usr/bin/env python3
"""False-alarm probe: behaviour-preserving refactorings of /repo, one at a time, against ALL checks.

Every entry below is an edit that a maintainer could make without changing what the code does (iterator adaptor instead of a loop,
renamed locals, `len() > 0` instead of `!is_empty()`, reordered independent tests, early return instead of if / else ...).  For each
edit a scratch copy of /repo is made outside /repo and /verif, the edit is applied, the copy must still build, and every claimed
property's quick check is run against it (GL_REPO).  Expected: exit 0 everywhere.  An exit 1 is a false alarm of a rule, an exit 2
a rule that lost its anchor (fails closed, no verdict) - both are printed; only exit 1 makes this script fail.

usage: python3 selftest/refactors.py [-j N] [--only name] [--props C01,C02]
"""
import json, os, re, shutil, subprocess, sys, tempfile
from concurrent.futures import ThreadPoolExecutor

VERIF = os.path.dirname(os.path.dirname(os.path.abspath(__file__)))
REPO = os.environ.get("GL_REPO_ORIG", "/repo")

R = []


def E(name, file, old, new, note=""):
    R.append(dict(name=name, edits=[(file, old, new)], note=note))


# ---------------------------------------------------------------- compile.rs
E("not-by-map-collect", "src/compile.rs",
  """                let x = x.compile(prg, env, circuit);
                let mut flipped = vec![0; x.len()];
                for (i, x) in x.iter().enumerate() {
                    flipped[i] = circuit.push_not(*x);
                }
                flipped""",
  """                let x = x.compile(prg, env, circuit);
                x.iter().map(|x| circuit.push_not(*x)).collect()""", "loop written with an iterator adaptor")
E("exporter-counter-advanced-before-store", "src/convert.rs",
  """                *out = wire_max + 1;
                wire_max += 2;""",
  """                wire_max += 2;
                *out = wire_max - 1;""", "de-alias counter advanced first, same wire numbers")
E("array-literal-by-flat-map", "src/compile.rs",
  """                for elem in elems {
                    wires.extend(elem.compile(prg, env, circuit));
                }
                wires
            }
            ExprEnum::ArrayRepeatLiteral(elem, size) => {""",
  """                for elem in elems.iter() {
                    let elem_wires = elem.compile(prg, env, circuit);
                    wires.extend(elem_wires);
                }
                wires
            }
            ExprEnum::ArrayRepeatLiteral(elem, size) => {""", "explicit iter() and a named temporary")
E("compile-block-named-result", "src/compile.rs",
  """    env.push();
    let mut expr = vec![];
    for stmt in stmts {
        expr = stmt.compile(prg, env, circuit);
    }
    env.pop();
    expr""",
  """    env.push();
    let mut value_of_block = vec![];
    for stmt in stmts.iter() {
        value_of_block = stmt.compile(prg, env, circuit);
    }
    env.pop();
    value_of_block""", "renamed local")
E("fncall-bind-with-for-each", "src/compile.rs",
  """                for (var, binding) in bindings {
                    env.let_in_current_scope(var.clone(), binding);
                }
                let body = compile_block(&fn_def.body, prg, &mut env, circuit);""",
  """                for (var, binding) in bindings.into_iter() {
                    env.let_in_current_scope(var, binding);
                }
                let body = compile_block(&fn_def.body, prg, &mut env, circuit);""", "no needless clone of the name")
E("let-mut-inline", "src/compile.rs",
  """            StmtEnum::LetMut(identifier, _, binding) => {
                let binding = binding.compile(prg, env, circuit);
                env.let_in_current_scope(identifier.clone(), binding);
                vec![]
            }""",
  """            StmtEnum::LetMut(identifier, _, binding) => {
                let wires = binding.compile(prg, env, circuit);
                let name = identifier.clone();
                env.let_in_current_scope(name, wires);
                Vec::new()
            }""", "renamed locals, Vec::new() for vec![]")
# ---------------------------------------------------------------- check.rs
E("block-check-early-return", "src/check.rs",
  """    if errors.is_empty() {
        Ok((typed_block, ret_ty))
    } else {
        Err(errors)
    }
}

impl UntypedStmt {""",
  """    if !errors.is_empty() {
        return Err(errors);
    }
    Ok((typed_block, ret_ty))
}

impl UntypedStmt {""", "early return instead of if / else")
E("recursive-types-len-test", "src/check.rs",
  """        if !recursive_type_defs.is_empty() {""",
  """        if recursive_type_defs.len() > 0 {""", "len() > 0 for !is_empty()")
E("check-type-ne-form", "src/check.rs",
  """    constrain_type(expr, expected)?;
    if &expr.ty == expected {
        Ok(())
    } else {""",
  """    constrain_type(expr, expected)?;
    if expr.ty == *expected {
        Ok(())
    } else {""", "comparison written on values instead of references")
E("pattern-suffix-if-form", "src/check.rs",
  """    if is_unspecified || &suffix == ty {
        Ok(())
    } else {
        let e = TypeErrorEnum::PatternDoesNotMatchType(ty.clone());
        Err(vec![Some(TypeError::new(e, meta))])
    }""",
  """    if !is_unspecified && &suffix != ty {
        let e = TypeErrorEnum::PatternDoesNotMatchType(ty.clone());
        return Err(vec![Some(TypeError::new(e, meta))]);
    }
    Ok(())""", "negated test with an early return")
# ---------------------------------------------------------------- circuit.rs
E("optimize-and-operand-order", "src/circuit.rs",
  """        if x == 0 || y == 0 {
            return Some(0);""",
  """        if y == 0 || x == 0 {
            return Some(0);""", "commuted disjunction")
E("push-or-and-first", "src/circuit.rs",
  """        let xor = self.push_xor(x, y);
        let and = self.push_and(x, y);
        self.push_xor(xor, and)""",
  """        let x_xor_y = self.push_xor(x, y);
        let x_and_y = self.push_and(x, y);
        self.push_xor(x_xor_y, x_and_y)""", "renamed locals")
E("push-mux-named", "src/circuit.rs",
  """        let x0_xor_x1 = self.push_xor(x0, x1);
        let nots = self.push_not(s);
        let swap = self.push_and(x0_xor_x1, nots);
        self.push_xor(x0, swap)""",
  """        let difference = self.push_xor(x0, x1);
        let not_s = self.push_not(s);
        let take_x1 = self.push_and(difference, not_s);
        self.push_xor(x0, take_x1)""", "renamed locals")
E("sweep-count-with-filter", "src/circuit.rs",
  """        for (w, used) in used_gates.iter().enumerate() {
            if !used {
                unused_gates += 1;
            }
            unused_before_gate[w] = unused_gates;
        }""",
  """        for (w, is_used) in used_gates.iter().enumerate() {
            if !*is_used {
                unused_gates += 1;
            }
            unused_before_gate[w] = unused_gates;
        }""", "renamed local with an explicit deref")
# ---------------------------------------------------------------- parse.rs
E("parse-or-renamed", "src/parse.rs",
  """        let mut x = self.parse_xor()?;
        while self.next_matches(&TokenEnum::Bar).is_some() {
            let y = self.parse_xor()?;
            let meta = join_expr_meta(&x, &y);
            x = Expr::untyped(ExprEnum::Op(Op::BitOr, Box::new(x), Box::new(y)), meta);
        }
        Ok(x)""",
  """        let mut lhs = self.parse_xor()?;
        while self.next_matches(&TokenEnum::Bar).is_some() {
            let rhs = self.parse_xor()?;
            let meta = join_expr_meta(&lhs, &rhs);
            lhs = Expr::untyped(ExprEnum::Op(Op::BitOr, Box::new(lhs), Box::new(rhs)), meta);
        }
        Ok(lhs)""", "renamed locals")
E("literal-entry-if-let", "src/parse.rs",
  """            match literal {
                Ok(literal) if parser.errors.is_empty() => Ok(literal),
                _ => Err(parser.errors),
            }""",
  """            if let (Ok(literal), true) = (literal, parser.errors.is_empty()) {
                Ok(literal)
            } else {
                Err(parser.errors)
            }""", "if let over a pair instead of a guarded match")
# ---------------------------------------------------------------- literal.rs
E("display-write-str", "src/literal.rs",
  """            Literal::True => write!(f, "true"),""",
  """            Literal::True => f.write_str("true"),""", "write_str for write!")
E("range-gate-checked-sub", "src/literal.rs",
  """                    && ty_max.is_none_or(|ty_max| max.saturating_sub(1) <= ty_max)""",
  """                    && ty_max.is_none_or(|ty_max| max.checked_sub(1).unwrap_or(0) <= ty_max)""", "checked_sub(..).unwrap_or(0) for saturating_sub")
E("mux-envs-outermost-scope-copied", "src/circuit.rs",
  """        let mut muxed = Env(vec![]);
        for (a, b) in a.0.iter().zip(b.0.iter()) {""",
  """        let mut muxed = a.outermost_scope();
        for (a, b) in a.0.iter().zip(b.0.iter()).skip(1) {""", "the outermost scope only holds consts on this tree (first half of seed C14-n)")
# ---------------------------------------------------------------- env.rs
E("env-get-find-map", "src/env.rs",
  """        for bindings in self.0.iter().rev() {
            if let Some(v) = bindings.get(identifier) {
                return Some(v.clone());
            }
        }
        None""",
  """        for scope in self.0.iter().rev() {
            if let Some(value) = scope.get(identifier) {
                return Some(value.clone());
            }
        }
        None""", "renamed locals")
E("env-assign-get-mut", "src/env.rs",
  """            if let Entry::Occupied(mut e) = scope.entry(identifier.clone()) {
                e.insert(binding);
                return;
            }""",
  """            if let Some(slot) = scope.get_mut(&identifier) {
                *slot = binding;
                return;
            }""", "get_mut instead of the entry API (still returns at the first hit)")
# ---------------------------------------------------------------- register_circuit.rs / convert.rs / scan.rs
E("reg-validate-reordered-tests", "src/register_circuit.rs",
  """        if self.output_regs.is_empty() {
            return Err(CircuitError::EmptyOutputs);
        }
        for &o in self.output_regs.iter() {
            if o > max_reg {
                return Err(CircuitError::InvalidOutput(o));
            }
        }
        if self.insts.len() > MAX_GATES {
            return Err(CircuitError::MaxCircuitSizeExceeded);
        }""",
  """        if self.insts.len() > MAX_GATES {
            return Err(CircuitError::MaxCircuitSizeExceeded);
        }
        if self.output_regs.is_empty() {
            return Err(CircuitError::EmptyOutputs);
        }
        for &o in self.output_regs.iter() {
            if o > max_reg {
                return Err(CircuitError::InvalidOutput(o));
            }
        }""", "independent tests reordered")
E("importer-assigned-renamed", "src/convert.rs",
  """            for &input_wire in input_wires.iter() {
                if !is_assigned[input_wire] {
                    return Err(FromBristolError::InvalidWireIndex(input_wire));
                }
            }""",
  """            for &read_wire in input_wires.iter() {
                if !is_assigned[read_wire] {
                    return Err(FromBristolError::InvalidWireIndex(read_wire));
                }
            }""", "renamed local")
E("scan-usize-bound-by-max-fn", "src/scan.rs",
  """                                "usize" if n <= u32::MAX as u64 => {""",
  """                                "usize" if n <= 4294967295u64 => {""", "the same bound written as a literal")

# ---------------------------------------------------------------- second set: heavier rewrites in rule-dense code
E("if-result-by-zip-map", "src/compile.rs",
  """                let mut gate_indexes = Vec::with_capacity(case_true.len());
                for i in 0..case_true.len() {
                    gate_indexes.push(circuit.push_mux(condition, case_true[i], case_false[i]));
                }
                gate_indexes""",
  """                let pairs = case_true.iter().zip(case_false.iter());
                pairs.map(|(t, f)| circuit.push_mux(condition, *t, *f)).collect()""", "index loop written as zip / map / collect")
E("if-env-copies-swapped", "src/compile.rs",
  """                let mut env_if_true = env.clone();
                let mut env_if_false = env.clone();
""",
  """                let mut env_if_false = env.clone();
                let mut env_if_true = env.clone();
""", "two independent copies made in the other order")
E("ssa-validate-outputs-first", "src/circuit.rs",
  """        for (i, g) in wires.enumerate() {
            match g {
                Wire::Input(_) => {}
                Wire::Xor(x, y) | Wire::And(x, y) => {
                    if x >= i || y >= i {
                        return Err(CircuitError::InvalidGate(i));
                    }
                }
                Wire::Not(x) => {
                    if x >= i {
                        return Err(CircuitError::InvalidGate(i));
                    }
                }
            }
        }
        if self.output_gates.is_empty() {
            return Err(CircuitError::EmptyOutputs);
        }""",
  """        if self.output_gates.is_empty() {
            return Err(CircuitError::EmptyOutputs);
        }
        for (i, g) in wires.enumerate() {
            match g {
                Wire::Input(_) => {}
                Wire::Xor(x, y) | Wire::And(x, y) => {
                    if x >= i || y >= i {
                        return Err(CircuitError::InvalidGate(i));
                    }
                }
                Wire::Not(x) => {
                    if x >= i {
                        return Err(CircuitError::InvalidGate(i));
                    }
                }
            }
        }""", "independent tests reordered")
E("cast-arms-by-if", "src/compile.rs",
  """                match size_after_cast.cmp(&expr.len()) {
                    std::cmp::Ordering::Equal => expr,
                    std::cmp::Ordering::Less => expr[(expr.len() - size_after_cast)..].to_vec(),
                    std::cmp::Ordering::Greater => {""",
  """                match size_after_cast.cmp(&expr.len()) {
                    std::cmp::Ordering::Equal => expr,
                    std::cmp::Ordering::Less => {
                        let cut = expr.len() - size_after_cast;
                        expr[cut..].to_vec()
                    }
                    std::cmp::Ordering::Greater => {""", "named intermediate")
E("short-circuit-and-renamed", "src/compile.rs",
  """                let panic_before_y = circuit.peek_panic().clone();
                // `y` is only evaluated if `x` is true, so its assignments must not be visible otherwise:
                let mut env_if_y = env.clone();
                let y = y.compile(prg, &mut env_if_y, circuit);
                assert_eq!(y.len(), 1);
                *env = circuit.mux_envs(x[0], env_if_y, env.clone());""",
  """                let panic_before_rhs = circuit.peek_panic().clone();
                // `y` is only evaluated if `x` is true, so its assignments must not be visible otherwise:
                let mut env_with_rhs = env.clone();
                let y = y.compile(prg, &mut env_with_rhs, circuit);
                assert_eq!(y.len(), 1);
                let env_without_rhs = env.clone();
                *env = circuit.mux_envs(x[0], env_with_rhs, env_without_rhs);
                let panic_before_y = panic_before_rhs;""", "renamed locals and a named copy")


# refactorings written by independent sub-agents (one patch each, against the tree they were written on)
PATCH_DIR = os.path.join(VERIF, "selftest", "refactor_patches")
if os.path.isdir(PATCH_DIR):
    for fn in sorted(os.listdir(PATCH_DIR)):
        if fn.endswith(".diff"):
            R.append(dict(name=fn[:-5], edits=[], patch=os.path.join(PATCH_DIR, fn), note="sub-agent refactoring"))


def run_one(r, props):
    tmp = tempfile.mkdtemp(prefix="glrefac-")
    try:
        subprocess.run(["rsync", "-a", "--exclude", "target", "--exclude", ".git", REPO + "/", tmp + "/"], check=True)
        if r.get("patch"):
            a = subprocess.run(["patch", "-p1", "--no-backup-if-mismatch", "-s", "-i", r["patch"]], cwd=tmp, stdout=subprocess.PIPE, stderr=subprocess.STDOUT, text=True)
            if a.returncode != 0:
                return dict(name=r["name"], status="stale-patch", detail=a.stdout[-200:])
        for (file, old, new) in r["edits"]:
            p = os.path.join(tmp, file)
            s = open(p).read()
            if s.count(old) != 1:
                return dict(name=r["name"], status="anchor-lost", detail="%s: text found %d times" % (file, s.count(old)))
            open(p, "w").write(s.replace(old, new))
        env = dict(os.environ, GL_REPO=tmp, GL_CACHE=os.path.join(tmp, ".glcache"), CARGO_NET_OFFLINE="true")
        b = subprocess.run(["cargo", "check", "--offline", "--quiet"], cwd=tmp, env=dict(env, CARGO_TARGET_DIR=os.path.join(tmp, "target")),
                           stdout=subprocess.PIPE, stderr=subprocess.STDOUT, text=True)
        if b.returncode != 0:
            return dict(name=r["name"], status="does-not-compile", detail=b.stdout[-400:])
        fired, undecided = [], []
        for p in props:
            c = subprocess.run([sys.executable, "-m", "glcheck", p, "--tier", "quick", "--no-evidence", "--no-replay-files"], cwd=VERIF, env=env,
                               stdout=subprocess.PIPE, stderr=subprocess.STDOUT, text=True)
            if c.returncode == 1:
                fired.append((p, sorted(set(re.findall(r"^  (\w+) ", c.stdout, re.M)))))
            elif c.returncode != 0:
                undecided.append((p, re.findall(r"ANCHOR-MISSING[^\n]*", c.stdout)[:2]))
        status = "FALSE-ALARM" if fired else ("undecided" if undecided else "quiet")
        return dict(name=r["name"], status=status, fired=fired, undecided=undecided)
    finally:
        shutil.rmtree(tmp, ignore_errors=True)


def main():
    args = sys.argv[1:]
    jobs = int(args[args.index("-j") + 1]) if "-j" in args else 6
    only = args[args.index("--only") + 1] if "--only" in args else None
    man = json.load(open(os.path.join(VERIF, "MANIFEST.json")))
    props = [c["property_id"] for c in man["checks"]]
    if "--props" in args:
        props = args[args.index("--props") + 1].split(",")
    todo = [r for r in R if only in (None, r["name"])]
    with ThreadPoolExecutor(max_workers=jobs) as ex:
        results = list(ex.map(lambda r: run_one(r, props), todo))
    bad = 0
    for r in results:
        print("%-14s %-34s %s" % (r["status"], r["name"], r.get("fired") or r.get("undecided") or r.get("detail") or ""))
        if r["status"] in ("FALSE-ALARM", "does-not-compile", "anchor-lost"):   # (a stale sub-agent patch is reported, not counted)
            bad += 1
    print("%d refactorings, %d quiet, %d undecided, %d wrong" % (len(results), sum(r["status"] == "quiet" for r in results),
                                                                 sum(r["status"] == "undecided" for r in results), bad))
    sys.exit(1 if bad else 0)


if __name__ == "__main__":
    main()
