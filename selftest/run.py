#!/usr/bin/env python3
"""Checker self-validation: apply each mutant diff to a scratch copy of /repo (outside /repo and /verif), run the
property's check against the copy (GL_REPO), and compare with the expectation in the diff header.

  # property: C02
  # expect: fire P1            (a VIOLATION whose rule is P1 must be reported)   |   # expect: quiet
  # note: ...

usage: selftest/run.py [--prop Cxx] [--only name] [-j N]
Exit 0 if every applicable mutant behaved as expected."""
import argparse
import concurrent.futures
import json
import os
import re
import shutil
import subprocess
import sys
import tempfile

VERIF = os.path.dirname(os.path.dirname(os.path.abspath(__file__)))
REPO = os.environ.get("GL_REPO", "/repo")
MUT = os.path.join(VERIF, "selftest", "mutants")


def parse_header(path):
    h = {}
    with open(path) as fh:
        for line in fh:
            m = re.match(r"#\s*(\w+):\s*(.*)$", line)
            if m:
                h[m.group(1)] = m.group(2).strip()
            elif not line.startswith("#"):
                break
    return h


def run_one(path):
    h = parse_header(path)
    name = os.path.basename(path)[:-5]
    prop = h["property"]
    tmp = tempfile.mkdtemp(prefix="glselftest-")
    try:
        subprocess.run(["rsync", "-a", "--exclude", "target", "--exclude", ".git", REPO + "/", tmp + "/"], check=True)
        r = subprocess.run(["patch", "-p1", "--no-backup-if-mismatch", "-s", "-i", path], cwd=tmp, stdout=subprocess.PIPE, stderr=subprocess.STDOUT, text=True)
        if r.returncode != 0:
            return {"name": name, "property": prop, "status": "inapplicable", "detail": r.stdout[-300:]}
        env = dict(os.environ, GL_REPO=tmp, GL_CACHE=os.path.join(tmp, ".glcache"))
        r = subprocess.run([sys.executable, "-m", "glcheck", prop, "--tier", "quick", "--no-evidence", "--no-replay-files"],
                           cwd=VERIF, env=env, stdout=subprocess.PIPE, stderr=subprocess.STDOUT, text=True)
        out = r.stdout
        rules = set(re.findall(r"^  (\w+) ", out, re.M))
        fired = r.returncode == 1 and "VIOLATION property=%s" % prop in out
        exp = h.get("expect", "")
        if r.returncode == 2:
            status = "undecided"
            if "BUILD-FAILED" in out:
                status = "does-not-compile"
        elif exp.startswith("fire"):
            want = exp.split()[1:] if len(exp.split()) > 1 else []
            ok = fired and (not want or any(w in rules for w in want))
            status = "ok" if ok else "MISSED"
        else:
            status = "ok" if (r.returncode == 0 and not fired) else "FALSE-ALARM"
        return {"name": name, "property": prop, "expect": exp, "status": status, "rules_fired": sorted(rules),
                "detail": "\n".join(out.strip().splitlines()[-4:])[-500:] if status not in ("ok",) else ""}
    finally:
        shutil.rmtree(tmp, ignore_errors=True)


def main():
    ap = argparse.ArgumentParser()
    ap.add_argument("--prop")
    ap.add_argument("--only")
    ap.add_argument("-j", type=int, default=8)
    ap.add_argument("--json", action="store_true")
    a = ap.parse_args()
    paths = []
    for root, _, fs in os.walk(MUT):
        for f in sorted(fs):
            if f.endswith(".diff"):
                p = os.path.join(root, f)
                h = parse_header(p)
                if a.prop and h.get("property") != a.prop:
                    continue
                if a.only and a.only not in f:
                    continue
                paths.append(p)
    with concurrent.futures.ThreadPoolExecutor(max_workers=a.j) as ex:
        results = list(ex.map(run_one, paths))
    bad = [r for r in results if r["status"] not in ("ok", "inapplicable")]
    if a.json:
        print(json.dumps(results, indent=1))
    else:
        for r in results:
            print("%-14s %-4s %-44s expect=%-10s fired=%s" % (r["status"], r["property"], r["name"], r.get("expect", ""), ",".join(r.get("rules_fired", []))))
            if r["status"] not in ("ok",) and r.get("detail"):
                print("    " + r["detail"].replace("\n", "\n    "))
        print("%d mutants, %d as expected, %d inapplicable, %d wrong" % (
            len(results), sum(r["status"] == "ok" for r in results), sum(r["status"] == "inapplicable" for r in results), len(bad)))
    return 1 if bad else 0


if __name__ == "__main__":
    sys.exit(main())
