# Mutant specifications (exec'd by make.py).  M(name, property, expectation, file, old text, new text, note)

# ---------------------------------------------------------------- C06
REVERT("revert-muxpanic-sorted", "C06", "fire D1", "13e92da", "pre-fix tree: mux_panic iterates HashMap keys while emitting gates")
REVERT("revert-constdefs-order", "C06", "fire D1", "b61eb1a", "pre-fix tree: const defs bound in HashMap order while reading Env")
M("structlit-hash-order", "C06", "fire D1", "src/compile.rs",
  """                for (field_name, _) in struct_def.fields.iter() {
                    wires.extend(fields.remove(field_name).unwrap());
                }""",
  """                let _ = struct_def;
                for (_, value) in fields.iter() {
                    wires.extend(value.iter().copied());
                }""", "struct literal fields laid out in HashMap order")
M("systemtime-in-compile-block", "C06", "fire D3", "src/compile.rs",
  """    env.push();
    let mut expr = vec![];""",
  """    env.push();
    let mut expr = vec![];
    if std::time::SystemTime::now().elapsed().is_err() {
        expr.push(0);
    }""", "clock read reachable from compile")
M("muxpanic-btreeset", "C06", "quiet", "src/circuit.rs",
  """        let mut keys: Vec<usize> = cache_t.keys().chain(cache_f.keys()).copied().collect();
        keys.sort_unstable();
        keys.dedup();""",
  """        let keys: std::collections::BTreeSet<usize> =
            cache_t.keys().chain(cache_f.keys()).copied().collect();""", "behaviour-preserving: keys ordered through a BTreeSet")
M("constdeps-first-match", "C06", "fire D1", "src/compile.rs",
  """        let mut input_gates = vec![];
        let mut wire = 2;""",
  """        let mut input_gates = vec![];
        let mut wire = 2;
        if let Some((first_party, _)) = self.const_deps.iter().next() {
            if first_party.is_empty() {
                wire += 1;
            }
        }""", "first element of a HashMap taken outside a loop influences wire numbering")

# ---------------------------------------------------------------- C02
REVERT("revert-panic-cache-fix", "C02", "fire P1", "b290cd5", "pre-fix tree: cache hit overwrites the running record")
M("p1-drop-already-panicked-mux", "C02", "fire P1", "src/circuit.rs",
  """            self.panic_gates.result.end_column[i] = self.push_mux(
                already_panicked,
                self.panic_gates.result.end_column[i],
                current.end_column[i],
            );""",
  """            self.panic_gates.result.end_column[i] = current.end_column[i];""", "later panic overwrites end_column of an earlier one")
M("p1-swap-line-column", "C02", "fire P1", "src/circuit.rs",
  """            start_line: unsigned_as_usize_bits(meta.start.0 as u64),
            start_column: unsigned_as_usize_bits(meta.start.1 as u64),""",
  """            start_line: unsigned_as_usize_bits(meta.start.1 as u64),
            start_column: unsigned_as_usize_bits(meta.start.0 as u64),""", "line/column swapped in the recorded location")
M("p5-merge-through-helper", "C02", "quiet", "src/circuit.rs",
  """        let mut result = PanicResult::ok();
        result.has_panicked = self.push_mux(condition, t.has_panicked, f.has_panicked);
        for (i, (&if_true, &if_false)) in t.panic_type.iter().zip(f.panic_type.iter()).enumerate() {
            result.panic_type[i] = self.push_mux(condition, if_true, if_false);
        }
        for (i, (&if_true, &if_false)) in t.start_line.iter().zip(f.start_line.iter()).enumerate() {
            result.start_line[i] = self.push_mux(condition, if_true, if_false);
        }
        for (i, (&if_true, &if_false)) in
            t.start_column.iter().zip(f.start_column.iter()).enumerate()
        {
            result.start_column[i] = self.push_mux(condition, if_true, if_false);
        }
        for (i, (&if_true, &if_false)) in t.end_line.iter().zip(f.end_line.iter()).enumerate() {
            result.end_line[i] = self.push_mux(condition, if_true, if_false);
        }
        for (i, (&if_true, &if_false)) in t.end_column.iter().zip(f.end_column.iter()).enumerate() {
            result.end_column[i] = self.push_mux(condition, if_true, if_false);
        }
        result
    }
""",
  """        PanicResult {
            has_panicked: self.push_mux(condition, t.has_panicked, f.has_panicked),
            panic_type: self.mux_usize_bits(condition, &t.panic_type, &f.panic_type),
            start_line: self.mux_usize_bits(condition, &t.start_line, &f.start_line),
            start_column: self.mux_usize_bits(condition, &t.start_column, &f.start_column),
            end_line: self.mux_usize_bits(condition, &t.end_line, &f.end_line),
            end_column: self.mux_usize_bits(condition, &t.end_column, &f.end_column),
        }
    }

    fn mux_usize_bits(
        &mut self,
        condition: GateIndex,
        t: &[GateIndex; USIZE_BITS],
        f: &[GateIndex; USIZE_BITS],
    ) -> [GateIndex; USIZE_BITS] {
        let mut muxed = [0; USIZE_BITS];
        for (i, (&if_true, &if_false)) in t.iter().zip(f.iter()).enumerate() {
            muxed[i] = self.push_mux(condition, if_true, if_false);
        }
        muxed
    }
""", "same merge: record built in one piece, the five vectors through an element-wise helper")
M("p5-helper-fields-crossed", "C02", "fire P5", "src/circuit.rs",
  """        let mut result = PanicResult::ok();
        result.has_panicked = self.push_mux(condition, t.has_panicked, f.has_panicked);
        for (i, (&if_true, &if_false)) in t.panic_type.iter().zip(f.panic_type.iter()).enumerate() {
            result.panic_type[i] = self.push_mux(condition, if_true, if_false);
        }
        for (i, (&if_true, &if_false)) in t.start_line.iter().zip(f.start_line.iter()).enumerate() {
            result.start_line[i] = self.push_mux(condition, if_true, if_false);
        }
        for (i, (&if_true, &if_false)) in
            t.start_column.iter().zip(f.start_column.iter()).enumerate()
        {
            result.start_column[i] = self.push_mux(condition, if_true, if_false);
        }
        for (i, (&if_true, &if_false)) in t.end_line.iter().zip(f.end_line.iter()).enumerate() {
            result.end_line[i] = self.push_mux(condition, if_true, if_false);
        }
        for (i, (&if_true, &if_false)) in t.end_column.iter().zip(f.end_column.iter()).enumerate() {
            result.end_column[i] = self.push_mux(condition, if_true, if_false);
        }
        result
    }
""",
  """        PanicResult {
            has_panicked: self.push_mux(condition, t.has_panicked, f.has_panicked),
            panic_type: self.mux_usize_bits(condition, &t.panic_type, &f.panic_type),
            start_line: self.mux_usize_bits(condition, &t.start_column, &f.start_column),
            start_column: self.mux_usize_bits(condition, &t.start_column, &f.start_column),
            end_line: self.mux_usize_bits(condition, &t.end_line, &f.end_line),
            end_column: self.mux_usize_bits(condition, &t.end_column, &f.end_column),
        }
    }

    fn mux_usize_bits(
        &mut self,
        condition: GateIndex,
        t: &[GateIndex; USIZE_BITS],
        f: &[GateIndex; USIZE_BITS],
    ) -> [GateIndex; USIZE_BITS] {
        let mut muxed = [0; USIZE_BITS];
        for (i, (&if_true, &if_false)) in t.iter().zip(f.iter()).enumerate() {
            muxed[i] = self.push_mux(condition, if_true, if_false);
        }
        muxed
    }
""", "start_line merged from start_column")
M("p5-helper-arms-swapped", "C02", "fire P5", "src/circuit.rs",
  """        let mut result = PanicResult::ok();
        result.has_panicked = self.push_mux(condition, t.has_panicked, f.has_panicked);
        for (i, (&if_true, &if_false)) in t.panic_type.iter().zip(f.panic_type.iter()).enumerate() {
            result.panic_type[i] = self.push_mux(condition, if_true, if_false);
        }
        for (i, (&if_true, &if_false)) in t.start_line.iter().zip(f.start_line.iter()).enumerate() {
            result.start_line[i] = self.push_mux(condition, if_true, if_false);
        }
        for (i, (&if_true, &if_false)) in
            t.start_column.iter().zip(f.start_column.iter()).enumerate()
        {
            result.start_column[i] = self.push_mux(condition, if_true, if_false);
        }
        for (i, (&if_true, &if_false)) in t.end_line.iter().zip(f.end_line.iter()).enumerate() {
            result.end_line[i] = self.push_mux(condition, if_true, if_false);
        }
        for (i, (&if_true, &if_false)) in t.end_column.iter().zip(f.end_column.iter()).enumerate() {
            result.end_column[i] = self.push_mux(condition, if_true, if_false);
        }
        result
    }
""",
  """        PanicResult {
            has_panicked: self.push_mux(condition, t.has_panicked, f.has_panicked),
            panic_type: self.mux_usize_bits(condition, &t.panic_type, &f.panic_type),
            start_line: self.mux_usize_bits(condition, &t.start_line, &f.start_line),
            start_column: self.mux_usize_bits(condition, &t.start_column, &f.start_column),
            end_line: self.mux_usize_bits(condition, &t.end_line, &f.end_line),
            end_column: self.mux_usize_bits(condition, &t.end_column, &f.end_column),
        }
    }

    fn mux_usize_bits(
        &mut self,
        condition: GateIndex,
        t: &[GateIndex; USIZE_BITS],
        f: &[GateIndex; USIZE_BITS],
    ) -> [GateIndex; USIZE_BITS] {
        let mut muxed = [0; USIZE_BITS];
        for (i, (&if_true, &if_false)) in t.iter().zip(f.iter()).enumerate() {
            muxed[i] = self.push_mux(condition, if_false, if_true);
        }
        muxed
    }
""", "helper selects f when the condition holds")
M("p1-memo-merge-and-then", "C02", "quiet", "src/circuit.rs",
  """            match (cache_t.get(k), cache_f.get(k)) {
                // A condition that was only checked in one of the branches is not part of the
                // merged record whenever the other branch is taken, so it must be checked again:
                (None, None) | (None, Some(_)) | (Some(_), None) => {}
                (Some(t), Some(f)) => {
                    cache.insert(*k, self.mux_uncached_panic(condition, t, f));
                }
            }""",
  """            let in_both = cache_t.get(k).and_then(|t| cache_f.get(k).map(|f| (t, f)));
            if let Some((t, f)) = in_both {
                cache.insert(*k, self.mux_uncached_panic(condition, t, f));
            }""", "same intersection with Option::and_then")
M("p1-memo-merge-and-then-one-sided", "C02", "fire P1", "src/circuit.rs",
  """            match (cache_t.get(k), cache_f.get(k)) {
                // A condition that was only checked in one of the branches is not part of the
                // merged record whenever the other branch is taken, so it must be checked again:
                (None, None) | (None, Some(_)) | (Some(_), None) => {}
                (Some(t), Some(f)) => {
                    cache.insert(*k, self.mux_uncached_panic(condition, t, f));
                }
            }""",
  """            let in_both = cache_t.get(k).and_then(|t| Some((t, cache_f.get(k).unwrap_or(t))));
            if let Some((t, f)) = in_both {
                cache.insert(*k, self.mux_uncached_panic(condition, t, f));
            }""", "a condition checked in the then-branch only stays memoised")
M("p1-selector-after-update", "C02", "fire P1", "src/circuit.rs",
  """        let already_panicked = self.panic_gates.result.has_panicked;
        self.panic_gates.result.has_panicked =
            self.push_or(self.panic_gates.result.has_panicked, cond);""",
  """        self.panic_gates.result.has_panicked =
            self.push_or(self.panic_gates.result.has_panicked, cond);
        let already_panicked = self.panic_gates.result.has_panicked;""", "selector read after the flag was updated: the first panic never records its location")
M("p1-memo-union", "C02", "fire P1", "src/circuit.rs",
  """                (None, None) | (None, Some(_)) | (Some(_), None) => {}""",
  """                (None, None) => {}
                (None, Some(r)) | (Some(r), None) => {
                    cache.insert(*k, r.clone());
                }""", "memo keeps conditions checked in one branch only")
M("p2-if-no-restore", "C02", "fire P2", "src/compile.rs",
  """                let panic_if_true = circuit.replace_panic_with(panic_before_branches.clone());""",
  """                let panic_if_true = circuit.peek_panic().clone();""", "else branch compiled on top of the then branch's record")
M("p2-or-no-merge", "C02", "fire P2", "src/compile.rs",
  """                let panic = circuit.mux_panic(x[0], &panic_before_y, &circuit.peek_panic().clone());
                circuit.replace_panic_with(panic);""",
  """                let _ = &panic_before_y;""", "rhs of || panics even when short-circuited")
M("p2-match-no-restore", "C02", "fire P2", "src/compile.rs",
  """                    circuit.replace_panic_with(panic_before_match.clone());

""",
  """                    let _ = &panic_before_match;

""", "clause i starts from clause i-1's record")
M("p2-join-no-install", "C02", "fire P2", "src/compile.rs",
  """                            circuit.replace_panic_with(muxed_panic);
                            vec![]""",
  """                            drop(muxed_panic);
                            vec![]""", "merged record of a for-join iteration is dropped")
M("p2-if-lost-then", "C02", "fire P2", "src/compile.rs",
  """                let muxed_panic = circuit.mux_panic(condition, &panic_if_true, &panic_if_false);""",
  """                let muxed_panic = circuit.mux_panic(condition, &panic_if_false, &panic_if_false);""", "then-branch panics are lost")
M("p2-if-rename-locals", "C02", "quiet", "src/compile.rs",
  """                let case_false = case_false.compile(prg, &mut env_if_false, circuit);
                let panic_if_false = circuit.replace_panic_with(panic_before_branches);

                *env = circuit.mux_envs(condition, env_if_true, env_if_false);

                let muxed_panic = circuit.mux_panic(condition, &panic_if_true, &panic_if_false);
                circuit.replace_panic_with(muxed_panic);""",
  """                let case_false = case_false.compile(prg, &mut env_if_false, circuit);
                let saved_else = circuit.replace_panic_with(panic_before_branches);

                let merged = circuit.mux_panic(condition, &panic_if_true, &saved_else);
                circuit.replace_panic_with(merged);
                *env = circuit.mux_envs(condition, env_if_true, env_if_false);""", "behaviour-preserving: locals renamed, independent statements reordered")
M("p3-sub-no-raise", "C02", "fire P3", "src/compile.rs",
  """                        let (sum, overflow) =
                            circuit.push_subtraction_circuit(&x, &y, is_signed(ty));
                        circuit.push_panic_if(overflow, PanicReason::Overflow, meta);
                        sum""",
  """                        let (sum, _overflow) =
                            circuit.push_subtraction_circuit(&x, &y, is_signed(ty));
                        sum""", "subtraction overflow no longer raises")
M("p3-mod-wrong-reason", "C02", "fire P3", "src/compile.rs",
  """                        circuit.push_panic_if(all_zero, PanicReason::DivByZero, meta);
                        if is_signed(ty) {
                            circuit.push_signed_division_circuit(&mut x, &mut y).1""",
  """                        circuit.push_panic_if(all_zero, PanicReason::Overflow, meta);
                        if is_signed(ty) {
                            circuit.push_signed_division_circuit(&mut x, &mut y).1""", "remainder by zero reported as overflow")
M("p3-eq-raises", "C02", "fire P3", "src/compile.rs",
  """                            acc = circuit.push_and(acc, eq);
                        }
                        match op {
                            Op::Eq => vec![acc],""",
  """                            acc = circuit.push_and(acc, eq);
                        }
                        circuit.push_panic_if(acc, PanicReason::Overflow, meta);
                        match op {
                            Op::Eq => vec![acc],""", "== raises a panic")
M("p3-varassign-write-no-raise", "C02", "fire P3", "src/compile.rs",
  """                            let out_of_bounds = circuit.push_not(index_less_than_array_len);
                            circuit.push_panic_if(
                                out_of_bounds,
                                PanicReason::OutOfBounds,
                                self.meta,
                            );
                            value = array;""",
  """                            let _out_of_bounds = circuit.push_not(index_less_than_array_len);
                            value = array;""", "write-back phase of an indexed assignment no longer bounds-checks")
M("p3-shift-conditional-raise", "C02", "fire P3", "src/compile.rs",
  """                circuit.push_panic_if(overflow, PanicReason::Overflow, meta);
                bits_unshifted""",
  """                if !x_is_signed {
                    circuit.push_panic_if(overflow, PanicReason::Overflow, meta);
                }
                bits_unshifted""", "signed shifts by >= width no longer raise")
M("p4-index-meta", "C02", "fire P4", "src/compile.rs",
  """                    .expect("Found a non-array value in an array access expr");
                let mut array = array.compile(prg, env, circuit);
                let mut index = index.compile(prg, env, circuit);""",
  """                    .expect("Found a non-array value in an array access expr");
                let meta = index.meta;
                let mut array = array.compile(prg, env, circuit);
                let mut index = index.compile(prg, env, circuit);""", "out-of-bounds panic reports the index expression's location")
M("p5-no-renumber-end-line", "C02", "fire P5", "src/circuit.rs",
  """        for w in self.panic_gates.result.end_line.iter_mut() {
            *w = shift_gate_index_if_necessary(*w);
        }
""", "", "end_line wires keep stale indices after the sweep")
M("p5-no-root-start-column", "C02", "fire P5", "src/circuit.rs",
  """        output_gate_stack.extend(self.panic_gates.result.start_column.iter());
""", "", "start_column gates are swept as unused")
M("p5-emit-order", "C02", "fire P5", "src/circuit.rs",
  """        panic_and_output.extend(shift_indexes_if_necessary(
            self.panic_gates.result.start_line,
        ));
        panic_and_output.extend(shift_indexes_if_necessary(
            self.panic_gates.result.start_column,
        ));""",
  """        panic_and_output.extend(shift_indexes_if_necessary(
            self.panic_gates.result.start_column,
        ));
        panic_and_output.extend(shift_indexes_if_necessary(
            self.panic_gates.result.start_line,
        ));""", "start_line / start_column emitted in the wrong order")
M("p5-decoder-swapped", "C02", "fire P5", "src/circuit.rs",
  """        let end_line: [bool; USIZE_BITS] = bits[(3 * USIZE_BITS) + 1..(4 * USIZE_BITS) + 1]
            .try_into()
            .unwrap();
        let end_column: [bool; USIZE_BITS] = bits[(4 * USIZE_BITS) + 1..(5 * USIZE_BITS) + 1]""",
  """        let end_column: [bool; USIZE_BITS] = bits[(3 * USIZE_BITS) + 1..(4 * USIZE_BITS) + 1]
            .try_into()
            .unwrap();
        let end_line: [bool; USIZE_BITS] = bits[(4 * USIZE_BITS) + 1..(5 * USIZE_BITS) + 1]""", "decoder reads end_line / end_column from each other's bits")
M("p5-mux-wrong-field", "C02", "fire P5", "src/circuit.rs",
  """        for (i, (&if_true, &if_false)) in t.end_line.iter().zip(f.end_line.iter()).enumerate() {""",
  """        for (i, (&if_true, &if_false)) in t.end_line.iter().zip(f.start_line.iter()).enumerate() {""", "end_line of a merge takes the else side from start_line")

# ---------------------------------------------------------------- C14
M("e8-quiet-outermost-scope-copied", "C14", "quiet", "src/circuit.rs",
  """        let mut muxed = Env(vec![]);
        for (a, b) in a.0.iter().zip(b.0.iter()) {""",
  """        let mut muxed = a.outermost_scope();
        for (a, b) in a.0.iter().zip(b.0.iter()).skip(1) {""", "behaviour-preserving on this tree: the outermost scope only holds consts (first half of seed C14-n)")
M2("e8-outermost-scope-copied-with-params-in-it", "C14", "fire E8", [
  ("src/circuit.rs", """        let mut muxed = Env(vec![]);
        for (a, b) in a.0.iter().zip(b.0.iter()) {""", """        let mut muxed = a.outermost_scope();
        for (a, b) in a.0.iter().zip(b.0.iter()).skip(1) {"""),
  ("src/compile.rs", """                let mut env = env.outermost_scope();
                env.push();
                for (var, binding) in bindings {
                    env.let_in_current_scope(var.clone(), binding);
                }
                let body = compile_block(&fn_def.body, prg, &mut env, circuit);
                env.pop();
                body""", """                let mut env = env.outermost_scope();
                for (var, binding) in bindings {
                    env.let_in_current_scope(var.clone(), binding);
                }
                compile_block(&fn_def.body, prg, &mut env, circuit)""")], "both halves of seed C14-n: mut parameters of called functions are no longer merged")
REVERT("revert-shortcircuit-env", "C14", "fire E4", "cc9123e", "pre-fix tree: rhs of && / || lowered on the caller's environment")
M("e2-block-no-pop", "C14", "fire E2", "src/compile.rs",
  """        expr = stmt.compile(prg, env, circuit);
    }
    env.pop();""",
  """        expr = stmt.compile(prg, env, circuit);
    }""", "block scope never popped: shadowing bindings outlive their block")
M("e2-fncall-no-pop", "C14", "fire E2", "src/compile.rs",
  """                    bindings.push((param.name.clone(), arg));
                    env.pop();
                }""",
  """                    bindings.push((param.name.clone(), arg));
                }""", "the scope in which an argument is lowered stays on the caller's environment")
M("e3-varassign-let", "C14", "fire E3", "src/compile.rs",
  """                env.assign_mut(identifier.clone(), value);""",
  """                env.let_in_current_scope(identifier.clone(), value);""", "assignment inside a block creates a new binding that dies with the block")
M("e4-if-then-on-shared-env", "C14", "fire E4", "src/compile.rs",
  """                let case_true = case_true.compile(prg, &mut env_if_true, circuit);""",
  """                let case_true = case_true.compile(prg, env, circuit);""", "then-branch assignments applied to the caller's environment unconditionally")
M("e4-match-no-install", "C14", "fire E4", "src/compile.rs",
  """                *env = muxed_env;
                circuit.replace_panic_with(muxed_panic);""",
  """                drop(muxed_env);
                circuit.replace_panic_with(muxed_panic);""", "assignments made in match arms are lost")
M("e4-join-unconditional", "C14", "fire E4", "src/compile.rs",
  """                            *env = circuit.mux_envs(join_eq, env_if_join, env.clone());""",
  """                            *env = env_if_join;""", "for-join body effects applied for non-joined pairs")
M("e1-if-const-condition", "C14", "fire E1", "src/compile.rs",
  """                *env = circuit.mux_envs(condition, env_if_true, env_if_false);

                let muxed_panic""",
  """                *env = circuit.mux_envs(1, env_if_true, env_if_false);

                let muxed_panic""", "environment merged under a different wire than the panic record")
M("e5-reach-into-env", "C14", "fire E5", "src/compile.rs",
  """                let binding = binding.compile(prg, env, circuit);
                env.let_in_current_scope(identifier.clone(), binding);
                vec![]""",
  """                let binding = binding.compile(prg, env, circuit);
                env.0.first_mut().unwrap().insert(identifier.clone(), binding);
                vec![]""", "let mut writes into the outermost scope through Env's storage")
M("e6-foreach-clone-per-iteration", "C14", "fire E6", "src/compile.rs",
  """                    for stmt in body {
                        stmt.compile(prg, env, circuit);
                    }
                    env.pop();
                    i += elem_in_bits;""",
  """                    let mut env_iter = env.clone();
                    for stmt in body {
                        stmt.compile(prg, &mut env_iter, circuit);
                    }
                    env.pop();
                    i += elem_in_bits;""", "loop body assignments are invisible to later iterations")
M("e4-if-clone-order", "C14", "quiet", "src/compile.rs",
  """                let mut env_if_true = env.clone();
                let mut env_if_false = env.clone();
""",
  """                let mut env_if_false = env.clone();
                let mut env_if_true = env.clone();
""", "behaviour-preserving: clones taken in the other order")

# ---------------------------------------------------------------- C16
REVERT("revert-input-validate", "C16", "fire G1", "f432f84", "pre-fix tree: Input.party / Input.input not examined by validate")
M("g1-ssa-not-unchecked", "C16", "fire G1", "src/circuit.rs",
  """                Wire::Not(x) => {
                    if x >= i {
                        return Err(CircuitError::InvalidGate(i));
                    }
                }""",
  """                Wire::Not(_) => {}""", "NOT gates may refer to any wire")
M("g1-ssa-outputs-unchecked", "C16", "fire G1", "src/circuit.rs",
  """        for &o in self.output_gates.iter() {
            if o >= self.wires_len() {
                return Err(CircuitError::InvalidOutput(o));
            }
        }
        if self.wires_len()""",
  """        if self.wires_len()""", "output wires are not range-checked")
M("g1-outputs-found-but-ignored", "C16", "fire G1", "src/circuit.rs",
  """        for &o in self.output_gates.iter() {
            if o >= self.wires_len() {
                return Err(CircuitError::InvalidOutput(o));
            }
        }""",
  """        let wires_len = self.wires_len();
        let _ = self.output_gates.iter().find(|&&o| o >= wires_len);""", "the search result is dropped: out-of-range outputs pass")
M("g1-outputs-checked-with-find", "C16", "quiet", "src/circuit.rs",
  """        for &o in self.output_gates.iter() {
            if o >= self.wires_len() {
                return Err(CircuitError::InvalidOutput(o));
            }
        }""",
  """        let wires_len = self.wires_len();
        if let Some(&o) = self.output_gates.iter().find(|&&o| o >= wires_len) {
            return Err(CircuitError::InvalidOutput(o));
        }""", "same check written with find")
M("g1-gate-verdict-in-a-local-ignored-for-not", "C16", "fire G1", "src/circuit.rs",
  """            match g {
                Wire::Input(_) => {}
                Wire::Xor(x, y) | Wire::And(x, y) => {
                    if x >= i || y >= i {
                        return Err(CircuitError::InvalidGate(i));
                    }
                }
                Wire::Not(x) => {
                    if x >= i {
                        return Err(CircuitError::InvalidGate(i));
                    }
                }
            }""",
  """            let ok = match g {
                Wire::Input(_) => true,
                Wire::Xor(x, y) | Wire::And(x, y) => x < i && y < i,
                Wire::Not(x) => x < i || true,
            };
            if !ok {
                return Err(CircuitError::InvalidGate(i));
            }""", "the verdict travels through a local; the Not operand's comparison never rejects")
M2("g2-checking-helper", "C16", "quiet", [
  ("src/register_circuit.rs", """                Op::Not(Not(x)) => {
                    if x > max_reg {
                        return Err(CircuitError::InvalidInst(i));
                    }
                    if !register_set[x] {
                        return Err(CircuitError::InvalidRegAccess(i, x));
                    }
                }""", """                Op::Not(Not(x)) => {
                    if x > max_reg {
                        return Err(CircuitError::InvalidInst(i));
                    }
                    check_reg_is_set(&register_set, i, x)?;
                }"""),
  ("src/register_circuit.rs", """// For some reason auto-ref auto-deref method dispatching works weirdly with""", """fn check_reg_is_set(register_set: &[bool], i: usize, reg: Reg) -> Result<(), CircuitError> {
    if register_set[reg] {
        Ok(())
    } else {
        Err(CircuitError::InvalidRegAccess(i, reg))
    }
}

// For some reason auto-ref auto-deref method dispatching works weirdly with""")], "written-check of the Not operand moved into a helper, propagated with ?")
M2("g2-checking-helper-result-dropped", "C16", "fire G2", [
  ("src/register_circuit.rs", """                Op::Not(Not(x)) => {
                    if x > max_reg {
                        return Err(CircuitError::InvalidInst(i));
                    }
                    if !register_set[x] {
                        return Err(CircuitError::InvalidRegAccess(i, x));
                    }
                }""", """                Op::Not(Not(x)) => {
                    if x > max_reg {
                        return Err(CircuitError::InvalidInst(i));
                    }
                    let _ = check_reg_is_set(&register_set, i, x);
                }"""),
  ("src/register_circuit.rs", """// For some reason auto-ref auto-deref method dispatching works weirdly with""", """fn check_reg_is_set(register_set: &[bool], i: usize, reg: Reg) -> Result<(), CircuitError> {
    if register_set[reg] {
        Ok(())
    } else {
        Err(CircuitError::InvalidRegAccess(i, reg))
    }
}

// For some reason auto-ref auto-deref method dispatching works weirdly with""")], "the helper's verdict is thrown away")
M("g8-saturated-input-bound", "C16", "fire G8", "src/register_circuit.rs",
  """                    match self.input_regs.get(party as usize) {
                        Some(&input_bits) if (input as usize) < input_bits => {}
                        _ => return Err(CircuitError::InvalidInput(i, *inst)),
                    }""",
  """                    let Some(&input_bits) = self.input_regs.get(party as usize) else {
                        return Err(CircuitError::InvalidInput(i, *inst));
                    };
                    let max_input = input_bits.saturating_sub(1);
                    if input as usize > max_input {
                        return Err(CircuitError::InvalidInput(i, *inst));
                    }""", "seed C16-h: input 0 of a party without bits passes")
M("g8-quiet-saturated-input-bound-guarded", "C16", "quiet", "src/register_circuit.rs",
  """                    match self.input_regs.get(party as usize) {
                        Some(&input_bits) if (input as usize) < input_bits => {}
                        _ => return Err(CircuitError::InvalidInput(i, *inst)),
                    }""",
  """                    let Some(&input_bits) = self.input_regs.get(party as usize) else {
                        return Err(CircuitError::InvalidInput(i, *inst));
                    };
                    if input_bits == 0 {
                        return Err(CircuitError::InvalidInput(i, *inst));
                    }
                    let max_input = input_bits.saturating_sub(1);
                    if input as usize > max_input {
                        return Err(CircuitError::InvalidInput(i, *inst));
                    }""", "same bound with the empty party rejected first")
M("g1-not-rejecting", "C16", "fire G1", "src/register_circuit.rs",
  """                Op::Not(Not(x)) => {
                    if x > max_reg {
                        return Err(CircuitError::InvalidInst(i));
                    }""",
  """                Op::Not(Not(x)) => {
                    if x > max_reg {
                        let _ = CircuitError::InvalidInst(i);
                        continue;
                    }""", "out-of-range NOT operand is skipped instead of rejected")
M("g2-y-not-looked-up", "C16", "fire G2", "src/register_circuit.rs",
  """                    if !register_set[y] {
                        return Err(CircuitError::InvalidRegAccess(i, y));
                    }
""", "", "second operand may be an unwritten register")
M("g2-mark-before-lookup", "C16", "fire G2", "src/register_circuit.rs",
  """            match inst.op {
                Op::Input(Input { party, input }) => {""",
  """            register_set[inst.out] = true;
            match inst.op {
                Op::Input(Input { party, input }) => {""", "an instruction may read its own unwritten destination")
M("g2-ssa-forward-reference", "C16", "fire G2", "src/circuit.rs",
  """                Wire::Not(x) => {
                    if x >= i {""",
  """                Wire::Not(x) => {
                    if x >= self.wires_len() {""", "NOT gates may refer to later wires")
M("g3-no-party-guard", "C16", "fire G3", "src/register_circuit.rs",
  """        if inputs.len() != self.input_regs.len() {
            panic!(
                "Circuit was built for {} parties, but found {} inputs",
                self.input_regs.len(),
                inputs.len()
            );
        }
        for (p, &input_regs) in self.input_regs.iter().enumerate() {""",
  """        for (p, &input_regs) in self.input_regs.iter().enumerate() {""", "register eval indexes inputs[p] without comparing the party count")
M("g3-run-no-party-check", "C16", "fire G3", "src/eval.rs",
  """        if self.inputs.len() != self.circuit.parties() {
            return Err(EvalError::UnexpectedNumberOfParties);
        }
""", "", "Evaluator::run no longer rejects a wrong number of parties")
M("g1-reorder-checks", "C16", "quiet", "src/register_circuit.rs",
  """                    if !register_set[x] {
                        return Err(CircuitError::InvalidRegAccess(i, x));
                    }
                    if !register_set[y] {
                        return Err(CircuitError::InvalidRegAccess(i, y));
                    }""",
  """                    if !register_set[y] {
                        return Err(CircuitError::InvalidRegAccess(i, y));
                    }
                    if !register_set[x] {
                        return Err(CircuitError::InvalidRegAccess(i, x));
                    }""", "behaviour-preserving for acceptance: checks reordered")

# ---------------------------------------------------------------- C12
M("k5-min-as-fold", "C12", "quiet", "src/compile.rs",
  """                ConstExprEnum::Min(args) => {
                    let mut result = <$const_ty>::MAX;
                    for arg in args {
                        result = min(result, $fn_ident(arg, consts_unsigned, bits));
                    }
                    result
                }""",
  """                ConstExprEnum::Min(args) => args
                    .iter()
                    .map(|arg| $fn_ident(arg, consts_unsigned, bits))
                    .fold(<$const_ty>::MAX, min),""", "same fold with Iterator::fold")
M("k5-min-as-fold-wrong-identity", "C12", "fire K5", "src/compile.rs",
  """                ConstExprEnum::Min(args) => {
                    let mut result = <$const_ty>::MAX;
                    for arg in args {
                        result = min(result, $fn_ident(arg, consts_unsigned, bits));
                    }
                    result
                }""",
  """                ConstExprEnum::Min(args) => args
                    .iter()
                    .map(|arg| $fn_ident(arg, consts_unsigned, bits))
                    .fold(<$const_ty>::MIN, min),""", "min() folded from MIN is always MIN")
M("k5-min-as-fold-skips-first", "C12", "fire K5", "src/compile.rs",
  """                ConstExprEnum::Min(args) => {
                    let mut result = <$const_ty>::MAX;
                    for arg in args {
                        result = min(result, $fn_ident(arg, consts_unsigned, bits));
                    }
                    result
                }""",
  """                ConstExprEnum::Min(args) => args
                    .iter()
                    .skip(1)
                    .map(|arg| $fn_ident(arg, consts_unsigned, bits))
                    .fold(<$const_ty>::MAX, min),""", "first argument of min() ignored")
REVERT("revert-invalid-literal-first", "C12", "fire K1", "21d964e", "pre-fix tree: mistyped usize constant panics before InvalidLiteralType is reported")
REVERT("revert-max-identity", "C12", "fire K5", "96af733", "pre-fix tree: signed max() starts at 0")
REVERT("revert-constdefs-order", "C12", "fire K4", "b61eb1a", "pre-fix tree: const defs bound in HashMap order")
M("k2-return-in-loop", "C12", "fire K2", "src/compile.rs",
  """                let Some(literal) = party_deps.get(c) else {
                    errs.push(CompilerError::MissingConstant(
                        party.clone(),
                        c.clone(),
                        *meta,
                    ));
                    continue;
                };
                let identifier = format!("{party}::{c}");
                match literal {""",
  """                let Some(literal) = party_deps.get(c) else {
                    errs.push(CompilerError::MissingConstant(
                        party.clone(),
                        c.clone(),
                        *meta,
                    ));
                    return Err(errs);
                };
                let identifier = format!("{party}::{c}");
                match literal {""", "only the first missing constant is reported")
M("k2-unsorted", "C12", "fire K2", "src/compile.rs",
  """        if !errs.is_empty() {
            errs.sort();
            return Err(errs);
        }
        let mut sorted_const_defs""",
  """        if !errs.is_empty() {
            return Err(errs);
        }
        let mut sorted_const_defs""", "errors returned in hash order")
M("k3-trapping-add", "C12", "fire K3", "src/compile.rs",
  """                    $wrap(lhs.wrapping_add(rhs), bits)""",
  """                    $wrap(lhs + rhs, bits)""", "const addition traps on overflow")
M("k5-min-identity", "C12", "fire K5", "src/compile.rs",
  """                    let mut result = <$const_ty>::MAX;""",
  """                    let mut result = i64::MAX as $const_ty;""", "min() over unsigned constants ignores values above i64::MAX")
M("k1-use-before-test", "C12", "fire K1", "src/compile.rs",
  """        if !errs.is_empty() {
            errs.sort();
            return Err(errs);
        }
        let mut sorted_const_defs: Vec<_> = self.const_defs.iter().collect();""",
  """        let mut sorted_const_defs: Vec<_> = self.const_defs.iter().collect();""", "constants are used although errors were collected (never returned)")

# ---------------------------------------------------------------- C11
M2("revert-importer-checked-arith", "C11", "fire B1", [
  ("src/convert.rs", """            let Some(num_output_wires) = checked_sum(&gates_per_output) else {
                return Err(FromBristolError::MalformedLine(line_str));
            };""", """            let num_output_wires = gates_per_output.iter().sum::<usize>();"""),
  ("src/convert.rs", """            if num_outputs != 1 || Some(parts.len()) != num_inputs.checked_add(4) {""", """            if num_outputs != 1 || parts.len() != num_inputs + 4 {"""),
  ], "pre-fix form of f41f37b (two of its sites): header numbers are summed / added with trapping arithmetic")
M("b2-unwrap-parse", "C11", "fire B2", "src/convert.rs",
  """            let num_inputs: usize = parts[0].parse()?;""",
  """            let num_inputs: usize = parts[0].parse().unwrap();""", "a non-numeric gate field panics")
M("b3-header-length-test-removed", "C11", "fire B3", "src/convert.rs",
  """            let (parts, line_str) = parse_line(lines.next())?;
            if parts.len() != 2 {
                return Err(FromBristolError::MalformedLine(line_str));
            }
            (parts[1], parts[0])""",
  """            let (parts, _line_str) = parse_line(lines.next())?;
            (parts[1], parts[0])""", "a one-number header line panics")
M("b3-output-wire-unchecked", "C11", "fire B3", "src/convert.rs",
  """            if output_wire >= wires_num {
                return Err(FromBristolError::InvalidWireIndex(output_wire));
            }
""", "", "a gate writing a wire beyond the declared count panics")
M("b1-unchecked-sub", "C11", "fire B1", "src/convert.rs",
  """            let Some(first_output_wire) = wires_num.checked_sub(num_output_wires) else {
                return Err(FromBristolError::MalformedLine(line_str));
            };""",
  """            let first_output_wire = wires_num - num_output_wires;""", "more outputs than wires underflows")
M("b3-input-wires-unchecked", "C11", "fire B3", "src/convert.rs",
  """            if let Some(&ind) = input_wires.iter().find(|&&w| w >= wires_num) {
                return Err(FromBristolError::InvalidWireIndex(ind));
            }
""", "", "a gate reading a wire beyond the declared count panics")

# ---------------------------------------------------------------- C09
REVERT("revert-enum-tag-checked", "C09", "fire L16", "b615982", "pre-fix tree: variants[tag] with a tag read from the bits")
REVERT("revert-range-literal-print-parse", "C09", "fire L15", "433fb92", "pre-fix tree: range end printed with suffix unconditionally; signed range stays a Literal::Range")
REVERT("revert-range-literal-signed-gate", "C09", "fire L14", "9da2990", "pre-fix tree: is_of_type accepts a Range only for unsigned element types while the checker re-types ranges for signed ones")
REVERT("revert-numeric-range", "C09", "fire L1", "45196da", "pre-fix tree: out-of-range numbers accepted and truncated")
REVERT("revert-enum-arity", "C09", "fire L2", "2937f1e", "pre-fix tree: enum literal arity unchecked")
REVERT("revert-struct-gate", "C09", "fire L3", "73e4da1", "gate keyed by name only: a duplicated field hides a missing one, the writer panics")
REVERT("revert-struct-writer-order", "C09", "fire L3", "151041d", "writer encodes struct fields in literal order behind an order-insensitive gate")
M("revert-range-checked-sub", "C09", "fire L5", "src/literal.rs",
  """                max.checked_sub(*min) == Some(*size as u64)""",
  """                max - min == *size as u64""", "pre-fix form of 6e0d291: max - min underflows in the gate")
M("l4-own-tag-width", "C09", "fire L4", "src/literal.rs",
  """                let enum_def = checked.enum_defs.get(enum_name).unwrap();
                let tag_size = enum_tag_size(enum_def);
                let max_size = enum_max_size(enum_def, checked, const_sizes);
                let mut wires = vec![false; max_size];""",
  """                let enum_def = checked.enum_defs.get(enum_name).unwrap();
                let tag_size = (usize::BITS - enum_def.variants.len().leading_zeros()) as usize;
                let max_size = enum_max_size(enum_def, checked, const_sizes);
                let mut wires = vec![false; max_size];""", "writer computes the tag width itself (differs for 2^k variants)")
M("l4-setter-width", "C09", "fire L4", "src/eval.rs",
  """        unsigned_to_bits(n as u64, 16, inputs);""",
  """        unsigned_to_bits(n as u64, 8, inputs);""", "set_u16 encodes 8 bits")
M("l6-encode-before-gate", "C09", "fire L6", "src/eval.rs",
  """            if literal.is_of_type(self.program, &ty) {
                self.inputs.push(vec![]);
                self.inputs
                    .last_mut()
                    .unwrap()
                    .extend(literal.as_bits(self.program, self.const_sizes));
                Ok(())""",
  """            let bits = literal.as_bits(self.program, self.const_sizes);
            if literal.is_of_type(self.program, &ty) {
                self.inputs.push(vec![]);
                self.inputs.last_mut().unwrap().extend(bits);
                Ok(())""", "an ill-typed literal is encoded (and may panic) before it is refused")
M("l2-tuple-guard-removed", "C09", "fire L2", "src/literal.rs",
  """            (Literal::Tuple(fields1), Type::Tuple(fields2)) if fields1.len() == fields2.len() => {""",
  """            (Literal::Tuple(fields1), Type::Tuple(fields2)) => {""", "tuple literals with missing components accepted")

# ---------------------------------------------------------------- C17
REVERT("revert-untyped-numbers-in-range", "C17", "fire T21", "91e7fa5", "pre-fix tree: literals that stay untyped are never compared with the 32-bit bounds")
M("t21-walk-not-on-every-accepting-path", "C17", "fire T21", "src/check.rs",
  """                    expect_untyped_numbers_in_range(&body, &mut errors);
                    if errors.is_empty() {""",
  """                    if self.is_pub {
                        expect_untyped_numbers_in_range(&body, &mut errors);
                    }
                    if errors.is_empty() {""", "only public functions are walked")
REVERT("revert-pattern-both-bounds", "C17", "fire T15", "18041d9", "pre-fix tree: a range pattern's lower bound is only compared with min, its upper bound only with max")
REVERT("revert-irrefutable-bindings", "C17", "fire T4", "a9fb7c7", "pre-fix tree: refutable let / for patterns accepted")
M("t1-if-condition-error-dropped", "C17", "fire T1", "src/check.rs",
  """                        if let Err(e) = condition {
                            errors.extend(e);
                        }
                        if let Err(e) = case_true {""",
  """                        if let Err(e) = condition {
                            drop(e);
                        }
                        if let Err(e) = case_true {""", "errors of an if condition vanish when a branch is ill-typed too (can end in Err(vec![]))")
M("t2-assign-to-immutable", "C17", "fire T2", "src/check.rs",
  """                    Some((Some(mut elem_ty), Mutability::Mutable)) => {
                        let mut typed_accessors = vec![];""",
  """                    Some((Some(mut elem_ty), _)) => {
                        let mut typed_accessors = vec![];""", "assignment to a binding not declared mut is accepted")
M("t3-if-condition-not-bool", "C17", "fire T3", "src/check.rs",
  """                        check_type(&mut condition, &Type::Bool)?;
                        let ty = unify(&mut case_true, &mut case_false, meta)?;""",
  """                        let ty = unify(&mut case_true, &mut case_false, meta)?;""", "non-Boolean if conditions accepted")
M("t3-arith-on-bool", "C17", "fire T3", "src/check.rs",
  """                    let ty = unify(&mut x, &mut y, meta)?;
                    expect_num_type(&ty, meta)?;
                    (ExprEnum::Op(*op, Box::new(x), Box::new(y)), ty)
                }
                Op::ShortCircuitAnd""",
  """                    let ty = unify(&mut x, &mut y, meta)?;
                    (ExprEnum::Op(*op, Box::new(x), Box::new(y)), ty)
                }
                Op::ShortCircuitAnd""", "true + false accepted")
M("t3-assign-value-unchecked", "C17", "fire T3", "src/check.rs",
  """                        let mut value = value.type_check(top_level_defs, env, fns, defs)?;
                        check_type(&mut value, &elem_ty)?;
                        Ok(Stmt::new(""",
  """                        let value = value.type_check(top_level_defs, env, fns, defs)?;
                        Ok(Stmt::new(""", "x = <value of another type> accepted")
M("t5-guard-not-cleared", "C17", "fire T5", "src/check.rs",
  """        fns.currently_being_checked.remove(&self.identifier);
""", "", "second call of a function reported as recursion / guard leaks")
M("t6-block-no-pop", "C17", "fire T6", "src/check.rs",
  """                let (body, ty) = type_check_block(stmts, top_level_defs, env, fns, defs)?;
                env.pop();
                (ExprEnum::Block(body), ty)""",
  """                let (body, ty) = type_check_block(stmts, top_level_defs, env, fns, defs)?;
                (ExprEnum::Block(body), ty)""", "bindings of a block stay visible after it")
M("t6-match-shared-scope", "C17", "fire T6", "src/check.rs",
  """                for (pattern, expr) in clauses {
                    env.push();
                    let pattern = pattern.type_check(env, fns, defs, Some(ty.clone()));
                    let expr = expr.type_check(top_level_defs, env, fns, defs);
                    env.pop();
                    match (pattern, expr) {""",
  """                env.push();
                for (pattern, expr) in clauses {
                    let pattern = pattern.type_check(env, fns, defs, Some(ty.clone()));
                    let expr = expr.type_check(top_level_defs, env, fns, defs);
                    match (pattern, expr) {""", "needs a matching pop after the loop: see seed C17-a for the complete change; here the scope is never popped")
M("t3-shift-reorder", "C17", "quiet", "src/check.rs",
  """                    expect_num_type(&x.ty, x.meta)?;
                    check_type(&mut y, &Type::Unsigned(UnsignedNumType::U8))?;""",
  """                    check_type(&mut y, &Type::Unsigned(UnsignedNumType::U8))?;
                    expect_num_type(&x.ty, x.meta)?;""", "behaviour-preserving for acceptance: checks reordered")

# ---------------------------------------------------------------- C07
REVERT("revert-wildcard-columns-not-split", "C07", "fire F14", "c0d878e", "pre-fix tree: usefulness splits columns that only identifiers look at (2^n)")
M("f14-quiet-flag-loop", "C07", "quiet", "src/check.rs",
  """    } else if patterns
        .iter()
        .all(|p| matches!(p.first(), Some(Pattern(PatternEnum::Identifier(_), _, _))))
    {""",
  """    } else if {
        let mut only_identifiers = true;
        for p in patterns.iter() {
            match p.first() {
                Some(Pattern(PatternEnum::Identifier(_), _, _)) => {}
                _ => only_identifiers = false,
            }
        }
        only_identifiers
    } {""", "same test written as a loop with a flag")
REVERT("revert-comment-hang", "C07", "fire F1", "a4bd399", "pre-fix tree: unterminated block comment loops forever")
REVERT("revert-eof-unwrap", "C07", "fire F4", "c315b42", "pre-fix tree: peek().unwrap() at end of input")
REVERT("revert-range-underflow", "C07", "fire F6", "a0c58da", "pre-fix tree: range_end - 1 on a token payload")
REVERT("revert-struct-literal-mode", "C07", "fire F8", "1854dc1", "pre-fix tree: struct literal fields parsed as expressions in literal mode")
REVERT("revert-match-hang", "C07", "fire F1", "e4f6402", "pre-fix tree: match clause loop never ends at end of input")
M("f1-line-comment-no-eof-test", "C07", "fire F1", "src/scan.rs",
  """                        while !(self.peek('\\n') || self.is_empty()) {""",
  """                        while !self.peek('\\n') {""", "a line comment on the last line without newline loops forever")
M("f2-line-comment-no-advance", "C07", "fire F2", "src/scan.rs",
  """                        while !(self.peek('\\n') || self.is_empty()) {
                            self.advance();
                        }""",
  """                        while !(self.peek('\\n') || self.is_empty()) {
                            self.column += 1;
                        }""", "line comments never advance")
M("f3-prefix-caret-recursion", "C07", "fire F3", "src/parse.rs",
  """    fn parse_unary(&mut self) -> Result<UntypedExpr, ()> {""",
  """    fn parse_unary(&mut self) -> Result<UntypedExpr, ()> {
        if self.peek(&TokenEnum::Caret) {
            return self.parse_unary();
        }""", "a prefix ^ recurses without consuming it")
M("f4-error-location-unwrap", "C07", "fire F4", "src/parse.rs",
  """            .map(|Token(_, meta)| meta)
            .unwrap_or_else(|| MetaInfo {
                start: (0, 0),
                end: (0, 0),
            });""",
  """            .map(|Token(_, meta)| meta)
            .unwrap();""", "reporting an error at the end of the input panics")
M("f5-open-world-ops", "C07", "fire F5", "src/parse.rs",
  """        let ops = vec![TokenEnum::DoubleEq, TokenEnum::BangEq];""",
  """        let ops = vec![TokenEnum::DoubleEq, TokenEnum::BangEq, TokenEnum::FatArrow];""", "a == b => c reaches unreachable!()")
M("f7-silent-expect-identifier", "C07", "fire F7", "src/parse.rs",
  """            Ok(identifier)
        } else {
            self.push_error_for_next(ParseErrorEnum::ExpectedIdentifier);
            Err(())
        }""",
  """            Ok(identifier)
        } else {
            Err(())
        }""", "a missing identifier fails without any error: Err(vec![])")
M("f10-tuple-accessor-off-by-one", "C07", "fire F10", "src/check.rs",
  """                                    if *index < value_types.len() {
                                        elem_ty = value_types[*index].clone();""",
  """                                    if *index <= value_types.len() {
                                        elem_ty = value_types[*index].clone();""", "t.2 = .. on a pair panics in the type checker")
M("f1-line-comment-reorder", "C07", "quiet", "src/scan.rs",
  """                        while !(self.peek('\\n') || self.is_empty()) {""",
  """                        while !(self.is_empty() || self.peek('\\n')) {""", "behaviour-preserving: tests reordered")

# ---------------------------------------------------------------- C15
M("u2-swapped-lookup-in-or-else", "C15", "quiet", "src/circuit.rs",
  """        match self.cache.get(gate) {
            Some(wire) => Some(wire),
            None => match gate {
                BuilderGate::Xor(x, y) => self.cache.get(&BuilderGate::Xor(*y, *x)),
                BuilderGate::And(x, y) => self.cache.get(&BuilderGate::And(*y, *x)),
            },
        }""",
  """        self.cache.get(gate).or_else(|| {
            let swapped = match *gate {
                BuilderGate::Xor(x, y) => BuilderGate::Xor(y, x),
                BuilderGate::And(x, y) => BuilderGate::And(y, x),
            };
            self.cache.get(&swapped)
        })""", "same lookups written with Option::or_else")
M("u2-or-else-skips-some-and", "C15", "fire U2", "src/circuit.rs",
  """        match self.cache.get(gate) {
            Some(wire) => Some(wire),
            None => match gate {
                BuilderGate::Xor(x, y) => self.cache.get(&BuilderGate::Xor(*y, *x)),
                BuilderGate::And(x, y) => self.cache.get(&BuilderGate::And(*y, *x)),
            },
        }""",
  """        self.cache.get(gate).or_else(|| match *gate {
            BuilderGate::Xor(x, y) => self.cache.get(&BuilderGate::Xor(y, x)),
            BuilderGate::And(x, y) if x < y => self.cache.get(&BuilderGate::And(y, x)),
            BuilderGate::And(_, _) => None,
        })""", "swapped And lookup only when x < y")
M("u1-raw-and-in-push-or", "C15", "fire U1", "src/circuit.rs",
  """        let xor = self.push_xor(x, y);
        let and = self.push_and(x, y);
        self.push_xor(xor, and)""",
  """        let xor = self.push_xor(x, y);
        let and = self.push_gate(BuilderGate::And(x, y));
        self.push_xor(xor, and)""", "OR emits its AND without folding constants / equal operands")
M("u1-and-not-guarded", "C15", "fire U1", "src/circuit.rs",
  """    pub fn push_and(&mut self, x: GateIndex, y: GateIndex) -> GateIndex {
        if let Some(optimized) = self.optimize_and(x, y) {""",
  """    pub fn push_and(&mut self, x: GateIndex, y: GateIndex) -> GateIndex {
        if x > y && x % 7 == 3 {
            return self.push_gate(BuilderGate::And(x, y));
        }
        if let Some(optimized) = self.optimize_and(x, y) {""", "some AND requests bypass the optimiser")
M("u2-no-idempotence", "C15", "fire U2", "src/circuit.rs",
  """        } else if y == 1 || x == y {
            return Some(x);""",
  """        } else if y == 1 {
            return Some(x);""", "x & x creates an AND gate")
M("u2-cache-not-commutative", "C15", "fire U2", "src/circuit.rs",
  """                BuilderGate::And(x, y) => self.cache.get(&BuilderGate::And(*y, *x)),""",
  """                BuilderGate::And(x, y) => self.cache.get(&BuilderGate::And(*x, *y)),""", "a & b and b & a both emitted")
M("u3-no-sweep-fast-path", "C15", "fire U3", "src/circuit.rs",
  """        self.gates.shrink_to_fit();
        let output_gates = self.remove_unused_gates(output_gates);""",
  """        self.gates.shrink_to_fit();
        let output_gates = if self.gates.len() < 64 {
            output_gates
        } else {
            self.remove_unused_gates(output_gates)
        };""", "small circuits keep their dead gates")
M("u4-cast-emits", "C15", "fire U4", "src/compile.rs",
  """                    std::cmp::Ordering::Equal => expr,""",
  """                    std::cmp::Ordering::Equal => {
                        for w in expr.iter_mut() {
                            *w = circuit.push_and(*w, *w);
                        }
                        expr
                    }""", "a same-width cast requests gates")
M("u4-mux-no-fold", "C15", "fire U4", "src/circuit.rs",
  """    pub fn push_mux(&mut self, s: GateIndex, x0: GateIndex, x1: GateIndex) -> GateIndex {
        if x0 == x1 {
            return x0;
        }""",
  """    pub fn push_mux(&mut self, s: GateIndex, x0: GateIndex, x1: GateIndex) -> GateIndex {""", "muxing a wire with itself costs gates")

# ---------------------------------------------------------------- C03
REVERT("revert-neg-overflow", "C03", "fire A1", "4cf6536", "pre-fix tree: -MIN does not panic")
REVERT("revert-div-overflow", "C03", "fire A1", "1bd0329", "pre-fix tree: MIN / -1 does not panic")
REVERT("revert-sign-extension", "C03", "fire A2", "4aedaf3", "pre-fix tree: extension fills only old_size bits")
M("a2-cast-extends-with-target-type", "C03", "fire A2", "src/compile.rs",
  """                        extend_to_bits(&mut expr, ty_expr, size_after_cast);""",
  """                        extend_to_bits(&mut expr, ty, size_after_cast);""", "u8 as i16 sign-extends")
M("a2-cast-keeps-high-bits", "C03", "fire A2", "src/compile.rs",
  """                    std::cmp::Ordering::Less => expr[(expr.len() - size_after_cast)..].to_vec(),""",
  """                    std::cmp::Ordering::Less => expr[..size_after_cast].to_vec(),""", "u16 as u8 keeps the high byte")
M("a2-cast-if-chain", "C03", "quiet", "src/compile.rs",
  """                match size_after_cast.cmp(&expr.len()) {
                    std::cmp::Ordering::Equal => expr,
                    std::cmp::Ordering::Less => expr[(expr.len() - size_after_cast)..].to_vec(),
                    std::cmp::Ordering::Greater => {
                        extend_to_bits(&mut expr, ty_expr, size_after_cast);
                        expr
                    }
                }""",
  """                if size_after_cast < expr.len() {
                    expr.split_off(expr.len() - size_after_cast)
                } else {
                    extend_to_bits(&mut expr, ty_expr, size_after_cast);
                    expr
                }""", "same cast, two-way selection (extend_to_bits is a no-op for equal widths)")
M("a13-minus-one-without-sign-bit", "C03", "fire A13", "src/compile.rs",
  """                            let mut y_is_minus_one = 1;
                            for &w in y.iter() {
                                y_is_minus_one = circuit.push_and(y_is_minus_one, w);
                            }""",
  """                            let mut y_is_minus_one = 1;
                            for &w in y.iter().skip(1) {
                                y_is_minus_one = circuit.push_and(y_is_minus_one, w);
                            }""", "seed C03-i: MIN / MAX panics")
M("a13-quiet-minus-one-from-first-wire", "C03", "quiet", "src/compile.rs",
  """                            let mut y_is_minus_one = 1;
                            for &w in y.iter() {
                                y_is_minus_one = circuit.push_and(y_is_minus_one, w);
                            }""",
  """                            let mut y_is_minus_one = y[0];
                            for &w in y.iter().skip(1) {
                                y_is_minus_one = circuit.push_and(y_is_minus_one, w);
                            }""", "same conjunction started from the first wire")
M("f8-nested-literals-leave-literal-mode", "C07", "fire F8", "src/parse.rs",
  """            self.parse_literal(token, true)
        } else {""",
  """            self.parse_literal(token, false)
        } else {""", "seed C07-i: nested struct literals are sorted again")
M("l11-signed-range-bound-against-unsigned-max", "C09", "fire L11", "src/check.rs",
  """                    (same_width, expected.max().map(|max| max as u64))""",
  """                    (same_width, same_width.as_ref().and_then(UnsignedNumType::max))""", "seed C09-l: 0..200 accepted as [i8; 200]")
M2("b7-dealias-wire-from-unmodified-circuit", "C11", "fire B7", [
  ("src/convert.rs", """        let mut wire_max = total_wires;

""", """
"""),
  ("src/convert.rs", """            if !inserted {
                let circuit = mod_circuit.get_or_insert_with(|| circuit.clone());""",
  """            if !inserted {
                let wire_max = circuit.wires_len();
                let circuit = mod_circuit.get_or_insert_with(|| circuit.clone());"""),
  ("src/convert.rs", """                wire_max += 2;
""", "")], "seed C11-h (the length of the unmodified circuit is the same in every iteration)")
M("b7-counter-step-one", "C11", "fire B7", "src/convert.rs",
  """                wire_max += 2;""",
  """                wire_max += 1;""", "two gates appended, counter advanced by one")
M2("b7-quiet-wire-from-modified-circuit", "C11", "quiet", [
  ("src/convert.rs", """        let mut wire_max = total_wires;

""", """
"""),
  ("src/convert.rs", """                let circuit = mod_circuit.get_or_insert_with(|| circuit.clone());
                // This output wire""",
  """                let circuit = mod_circuit.get_or_insert_with(|| circuit.clone());
                let wire_max = circuit.wires_len();
                // This output wire"""),
  ("src/convert.rs", """                wire_max += 2;
""", "")], "the length of the circuit the gates are appended to grows with them")
M("a3-div-pow2-to-shift", "C03", "fire A3", "src/compile.rs",
  """                let ty_x = &x.ty;
                let ty_y = &y.ty;
                let mut x = x.compile(prg, env, circuit);""",
  """                if let (Op::Div, ExprEnum::NumSigned(2, suffix)) = (op, &y.inner) {
                    let _ = suffix;
                    return Expr {
                        inner: ExprEnum::Op(
                            Op::ShiftRight,
                            x.clone(),
                            Box::new(Expr {
                                inner: ExprEnum::NumUnsigned(1, UnsignedNumType::U8),
                                meta,
                                ty: Type::Unsigned(UnsignedNumType::U8),
                            }),
                        ),
                        meta,
                        ty: ty.clone(),
                    }
                    .compile(prg, env, circuit);
                }
                let ty_x = &x.ty;
                let ty_y = &y.ty;
                let mut x = x.compile(prg, env, circuit);""", "x / 2 lowered as x >> 1 (rounds towards -inf for negative x)")
M("a3-mod-uses-quotient", "C03", "quiet", "src/compile.rs",
  """                        circuit.push_panic_if(all_zero, PanicReason::DivByZero, meta);
                        if is_signed(ty) {
                            circuit.push_signed_division_circuit(&mut x, &mut y).1""",
  """                        circuit.push_panic_if(all_zero, PanicReason::DivByZero, meta);
                        if is_signed(ty) {
                            let (_q, r) = circuit.push_signed_division_circuit(&mut x, &mut y);
                            r""", "behaviour-preserving: destructured instead of .1")
M("a1-shift-no-raise-for-signed", "C03", "fire A1", "src/compile.rs",
  """                circuit.push_panic_if(overflow, PanicReason::Overflow, meta);
                bits_unshifted""",
  """                if !x_is_signed {
                    circuit.push_panic_if(overflow, PanicReason::Overflow, meta);
                }
                bits_unshifted""", "signed shifts by >= width no longer raise")

# ---------------------------------------------------------------- C08
M("m3-bounds-crossed", "C08", "fire M3", "src/compile.rs",
  """                let min = unsigned_as_wires(*min, bits);
                let max = unsigned_as_wires(*max, bits);
                let signed = is_signed(ty);
                let (lt_min, _) =
                    circuit.push_comparator_circuit(bits, match_expr, signed, &min, signed);
                let (_, gt_max) =
                    circuit.push_comparator_circuit(bits, match_expr, signed, &max, signed);""",
  """                let min = unsigned_as_wires(*min, bits);
                let max = unsigned_as_wires(*max, bits);
                let signed = is_signed(ty);
                let (lt_min, _) =
                    circuit.push_comparator_circuit(bits, match_expr, signed, &max, signed);
                let (_, gt_max) =
                    circuit.push_comparator_circuit(bits, match_expr, signed, &min, signed);""", "lower comparison against max, upper against min")
REVERT("revert-pattern-both-bounds-c08", "C08", "fire M9", "18041d9", "pre-fix tree: inverted range patterns with a bound outside the type match values")
REVERT("revert-signed-split", "C08", "fire M2", "4c5c3ff", "pre-fix tree: signed catch-all query not split, negative bounds dropped")
M("m1-selector-is-match-only", "C08", "fire M1", "src/compile.rs",
  """                    let no_prev_match = circuit.push_not(has_prev_match);
                    let s = circuit.push_and(no_prev_match, is_match);""",
  """                    let s = is_match;""", "a later matching arm overrides an earlier one")
M("m1-flag-updated-first", "C08", "fire M1", "src/compile.rs",
  """                    let no_prev_match = circuit.push_not(has_prev_match);
                    let s = circuit.push_and(no_prev_match, is_match);

                    env.pop();
""",
  """                    has_prev_match = circuit.push_or(has_prev_match, is_match);
                    let no_prev_match = circuit.push_not(has_prev_match);
                    let s = circuit.push_and(no_prev_match, is_match);

                    env.pop();
""", "the flag already includes the current arm: no arm is selected")
M("m1-clauses-reversed", "C08", "fire M1", "src/compile.rs",
  """                for (pattern, ret_expr) in clauses {
                    let mut env = env.clone();""",
  """                for (pattern, ret_expr) in clauses.iter().rev() {
                    let mut env = env.clone();""", "the last matching arm wins")
M("m3-skip-lower-bound-at-zero", "C08", "fire M3", "src/compile.rs",
  """                let (lt_min, _) =
                    circuit.push_comparator_circuit(bits, match_expr, signed, &min, signed);
                let (_, gt_max) =
                    circuit.push_comparator_circuit(bits, match_expr, signed, &max, signed);
                let not_lt_min = circuit.push_not(lt_min);
                let not_gt_max = circuit.push_not(gt_max);
                circuit.push_and(not_lt_min, not_gt_max)
            }
            PatternEnum::SignedInclusiveRange(min, max, _) => {""",
  """                let (_, gt_max) =
                    circuit.push_comparator_circuit(bits, match_expr, signed, &max, signed);
                let not_gt_max = circuit.push_not(gt_max);
                if min.iter().all(|w| *w == 0) {
                    return not_gt_max;
                }
                let (lt_min, _) =
                    circuit.push_comparator_circuit(bits, match_expr, signed, &min, signed);
                let not_lt_min = circuit.push_not(lt_min);
                circuit.push_and(not_lt_min, not_gt_max)
            }
            PatternEnum::SignedInclusiveRange(min, max, _) => {""", "0..n on a signed scrutinee matches negative values")
M("m3-gt-lt-swapped", "C08", "fire M3", "src/compile.rs",
  """                let (lt_min, _) =
                    circuit.push_comparator_circuit(bits, match_expr, signed, &min, signed);
                let (_, gt_max) =
                    circuit.push_comparator_circuit(bits, match_expr, signed, &max, signed);
                let not_lt_min = circuit.push_not(lt_min);
                let not_gt_max = circuit.push_not(gt_max);
                circuit.push_and(not_lt_min, not_gt_max)
            }
            PatternEnum::Tuple(fields) => {""",
  """                let (_, lt_min) =
                    circuit.push_comparator_circuit(bits, match_expr, signed, &min, signed);
                let (_, gt_max) =
                    circuit.push_comparator_circuit(bits, match_expr, signed, &max, signed);
                let not_lt_min = circuit.push_not(lt_min);
                let not_gt_max = circuit.push_not(gt_max);
                circuit.push_and(not_lt_min, not_gt_max)
            }
            PatternEnum::Tuple(fields) => {""", "signed ranges compare with the wrong comparator output")

# ---------------------------------------------------------------- C04
M("o1-sweep-skips-y", "C04", "fire O1", "src/circuit.rs",
  """            *x = shift_gate_index_if_necessary(*x);
            *y = shift_gate_index_if_necessary(*y);""",
  """            *x = shift_gate_index_if_necessary(*x);
            *y = shift_gate_index_if_necessary(*x);""", "second operands are overwritten with the shifted first operand")
M("o1-final-xor-unshifted", "C04", "fire O1", "src/circuit.rs",
  """                    let x = shift_gate_index_if_necessary(x);
                    let y = shift_gate_index_if_necessary(y);
                    Gate::Xor(x, y)""",
  """                    let x = shift_gate_index_if_necessary(x);
                    Gate::Xor(x, y)""", "second XOR operand keeps the builder numbering")
M("o1-final-and-swapped-source", "C04", "fire O1", "src/circuit.rs",
  """                let x = shift_gate_index_if_necessary(x);
                let y = shift_gate_index_if_necessary(y);
                Gate::And(x, y)""",
  """                let x = shift_gate_index_if_necessary(x);
                let y = shift_gate_index_if_necessary(x);
                Gate::And(x, y)""", "AND gates become x & x")
M("o2-not-only-first-position", "C04", "fire O2", "src/circuit.rs",
  """                } else if y == 1 {
                    let x = shift_gate_index_if_necessary(x);
                    Gate::Not(x)
                } else {""",
  """                } else {""", "xor(x, 1) is emitted as an XOR with the constant-true wire (still correct but the NOT encoding is incomplete)")
M("o3-mux-depends-on-switch", "C04", "fire O3", "src/circuit.rs",
  """        if x0 == x1 {
            return x0;
        }
        let x0_xor_x1 = self.push_xor(x0, x1);""",
  """        if x0 == x1 {
            return x0;
        }
        if !self.opts.cache_gates && s == 1 {
            return x0;
        }
        let x0_xor_x1 = self.push_xor(x0, x1);""", "with de-duplication off a different request sequence is made")

M("o5-and-one-returns-self", "C04", "fire O5", "src/circuit.rs",
  """        } else if x == 1 {
            return Some(y);
        } else if y == 1 || x == y {
            return Some(x);""",
  """        } else if x == 1 {
            return Some(x);
        } else if y == 1 || x == y {
            return Some(x);""", "1 & y folds to 1")
M("o5-xor-self-is-one", "C04", "fire O5", "src/circuit.rs",
  """        } else if x == y {
            return Some(0);
        } else if let Some(&x_negated) = self.negated.get(&x) {
            if x_negated == y {
                return Some(1);""",
  """        } else if x == y {
            return Some(1);
        } else if let Some(&x_negated) = self.negated.get(&x) {
            if x_negated == y {
                return Some(1);""", "x ^ x folds to 1")
M("o5-and-negated-is-one", "C04", "fire O5", "src/circuit.rs",
  """            if y_negated == x {
                return Some(0);
            }
        }
        // Sub-expression sharing:
        if let Some(&wire) = self.get_cached(&BuilderGate::And(x, y)) {""",
  """            if y_negated == x {
                return Some(1);
            }
        }
        // Sub-expression sharing:
        if let Some(&wire) = self.get_cached(&BuilderGate::And(x, y)) {""", "x & !x folds to 1")
M("o5-quiet-match-form", "C04", "quiet", "src/circuit.rs",
  """        if x == 0 {
            return Some(y);
        } else if y == 0 {
            return Some(x);
        } else if x == y {
            return Some(0);
        } else if let Some(&x_negated) = self.negated.get(&x) {
            if x_negated == y {
                return Some(1);""",
  """        if y == 0 {
            return Some(x);
        }
        if x == 0 {
            return Some(y);
        }
        if x == y {
            return Some(0);
        } else if let Some(&x_negated) = self.negated.get(&x) {
            if x_negated == y {
                return Some(1);""", "behaviour-preserving: folding cases reordered")
M("o6-negated-wrong-operand", "C04", "fire O6", "src/circuit.rs",
  """            if y == 1 {
                self.negated.insert(x, gate_index);
                self.negated.insert(gate_index, x);
            }""",
  """            if y == 1 {
                self.negated.insert(y, gate_index);
                self.negated.insert(gate_index, x);
            }""", "the constant-true wire is recorded as negated by the new gate")
M("o6-negated-unconditional", "C04", "fire O6", "src/circuit.rs",
  """            if x == 1 {
                self.negated.insert(y, gate_index);
                self.negated.insert(gate_index, y);
            }""",
  """            self.negated.insert(y, gate_index);
            if x == 1 {
                self.negated.insert(gate_index, y);
            }""", "every XOR gate is recorded as a negation of its second operand")

# ---------------------------------------------------------------- C10
M2("r7-guard-predicate-helper", "C10", "quiet", [
  ("src/register_circuit.rs", """        if let Some(b) = b {
            if let Some(&last_use) = self.last_used.get(&b) {
                if last_use == gate_id {
                    // This might be None if a == b, as we already removed a previously
                    if let Some(reg) = self.wire_map.remove(&b) {
                        if reuse_reg.is_some() {
                            self.free_regs.push(reg);
                        } else {
                            reuse_reg = Some(reg);
                        }
                    }
                }
            }
        }""", """        if let Some(b) = b {
            if self.is_last_use(b, gate_id) {
                if let Some(reg) = self.wire_map.remove(&b) {
                    if reuse_reg.is_some() {
                        self.free_regs.push(reg);
                    } else {
                        reuse_reg = Some(reg);
                    }
                }
            }
        }"""),
  ("src/register_circuit.rs", """    /// Finds a free output register or allocates a new one and updates the wire_map.
    /// If the current gate is the last use of one its inputs, we immediately reuse
    /// the register.
    fn find_out_reg(""", """    fn is_last_use(&self, wire: GateIndex, gate_id: GateIndex) -> bool {
        self.last_used.get(&wire) == Some(&gate_id)
    }

    /// Finds a free output register or allocates a new one and updates the wire_map.
    /// If the current gate is the last use of one its inputs, we immediately reuse
    /// the register.
    fn find_out_reg(""")], "guard moved into a bool helper")
M2("r7-guard-predicate-helper-negated", "C10", "fire R7", [
  ("src/register_circuit.rs", """        if let Some(b) = b {
            if let Some(&last_use) = self.last_used.get(&b) {
                if last_use == gate_id {
                    // This might be None if a == b, as we already removed a previously
                    if let Some(reg) = self.wire_map.remove(&b) {
                        if reuse_reg.is_some() {
                            self.free_regs.push(reg);
                        } else {
                            reuse_reg = Some(reg);
                        }
                    }
                }
            }
        }""", """        if let Some(b) = b {
            if !self.is_last_use(b, gate_id) {
                if let Some(reg) = self.wire_map.remove(&b) {
                    if reuse_reg.is_some() {
                        self.free_regs.push(reg);
                    } else {
                        reuse_reg = Some(reg);
                    }
                }
            }
        }"""),
  ("src/register_circuit.rs", """    /// Finds a free output register or allocates a new one and updates the wire_map.
    /// If the current gate is the last use of one its inputs, we immediately reuse
    /// the register.
    fn find_out_reg(""", """    fn is_last_use(&self, wire: GateIndex, gate_id: GateIndex) -> bool {
        self.last_used.get(&wire) == Some(&gate_id)
    }

    /// Finds a free output register or allocates a new one and updates the wire_map.
    /// If the current gate is the last use of one its inputs, we immediately reuse
    /// the register.
    fn find_out_reg(""")], "released when it is not the last use")
M2("r7-guard-predicate-helper-args-crossed", "C10", "fire R7", [
  ("src/register_circuit.rs", """        if let Some(b) = b {
            if let Some(&last_use) = self.last_used.get(&b) {
                if last_use == gate_id {
                    // This might be None if a == b, as we already removed a previously
                    if let Some(reg) = self.wire_map.remove(&b) {
                        if reuse_reg.is_some() {
                            self.free_regs.push(reg);
                        } else {
                            reuse_reg = Some(reg);
                        }
                    }
                }
            }
        }""", """        if let Some(b) = b {
            if self.is_last_use(gate_id, b) {
                if let Some(reg) = self.wire_map.remove(&b) {
                    if reuse_reg.is_some() {
                        self.free_regs.push(reg);
                    } else {
                        reuse_reg = Some(reg);
                    }
                }
            }
        }"""),
  ("src/register_circuit.rs", """    /// Finds a free output register or allocates a new one and updates the wire_map.
    /// If the current gate is the last use of one its inputs, we immediately reuse
    /// the register.
    fn find_out_reg(""", """    fn is_last_use(&self, wire: GateIndex, gate_id: GateIndex) -> bool {
        self.last_used.get(&wire) == Some(&gate_id)
    }

    /// Finds a free output register or allocates a new one and updates the wire_map.
    /// If the current gate is the last use of one its inputs, we immediately reuse
    /// the register.
    fn find_out_reg(""")], "helper asked about the wrong wire")
M("r7-guard-on-options", "C10", "quiet", "src/register_circuit.rs",
  """        if let Some(b) = b {
            if let Some(&last_use) = self.last_used.get(&b) {
                if last_use == gate_id {
                    // This might be None if a == b, as we already removed a previously
                    if let Some(reg) = self.wire_map.remove(&b) {
                        if reuse_reg.is_some() {
                            self.free_regs.push(reg);
                        } else {
                            reuse_reg = Some(reg);
                        }
                    }
                }
            }
        }""",
  """        if let Some(b) = b {
            if self.last_used.get(&b) == Some(&gate_id) {
                if let Some(reg) = self.wire_map.remove(&b) {
                    if reuse_reg.is_some() {
                        self.free_regs.push(reg);
                    } else {
                        reuse_reg = Some(reg);
                    }
                }
            }
        }""", "same guard: get(&b) == Some(&gate_id)")
M("r7-guard-on-options-negated", "C10", "fire R7", "src/register_circuit.rs",
  """        if let Some(b) = b {
            if let Some(&last_use) = self.last_used.get(&b) {
                if last_use == gate_id {
                    // This might be None if a == b, as we already removed a previously
                    if let Some(reg) = self.wire_map.remove(&b) {
                        if reuse_reg.is_some() {
                            self.free_regs.push(reg);
                        } else {
                            reuse_reg = Some(reg);
                        }
                    }
                }
            }
        }""",
  """        if let Some(b) = b {
            if self.last_used.get(&b) != Some(&gate_id) {
                if let Some(reg) = self.wire_map.remove(&b) {
                    if reuse_reg.is_some() {
                        self.free_regs.push(reg);
                    } else {
                        reuse_reg = Some(reg);
                    }
                }
            }
        }""", "operand released when this is NOT its last use")
M("r1-pin-first", "C10", "fire R1", "src/register_circuit.rs",
  """    let mut last_used = HashMap::with_capacity(circ.wires_len());

    for (gate_id, w) in circ.wires().enumerate() {""",
  """    let mut last_used = HashMap::with_capacity(circ.wires_len());
    for &gate_id in &circ.output_gates {
        last_used.insert(gate_id, usize::MAX);
    }

    for (gate_id, w) in circ.wires().enumerate() {""", "an output wire that is also an operand of a later gate loses its pin")
M("r2-operands-after-out", "C10", "fire R2", "src/register_circuit.rs",
  """                Wire::Not(a) => {
                    let op = Op::Not(Not(self.wire_map[&a]));
                    let out = self.find_out_reg(gate_id, a, None);
                    Inst { op, out }""",
  """                Wire::Not(a) => {
                    let out = self.find_out_reg(gate_id, a, None);
                    let op = Op::Not(Not(self.wire_map[&a]));
                    Inst { op, out }""", "a NOT of a dying wire looks its operand up after it was removed from the map")
M("r3-count-in-xor", "C10", "fire R3", "src/register_circuit.rs",
  """                    let out = self.find_out_reg(gate_id, a, Some(b));
                    Inst { op, out }
                }
                Wire::And(a, b) => {""",
  """                    let out = self.find_out_reg(gate_id, a, Some(b));
                    self.and_ops += 1;
                    Inst { op, out }
                }
                Wire::And(a, b) => {""", "XOR instructions are counted as ANDs")
M("r4-budget-off", "C10", "fire R4", "src/register_circuit.rs",
  """            insts: self.insts,
            max_reg_count: self.next_reg as usize,""",
  """            max_reg_count: self.insts.len(),
            insts: self.insts,""", "register budget is the instruction count")
M("r4-fresh-reg-no-bump", "C10", "fire R4", "src/register_circuit.rs",
  """        } else {
            self.next_reg += 1;
            Reg(self.next_reg - 1)
        }""",
  """        } else {
            Reg(self.next_reg)
        }""", "fresh registers are handed out twice")

# ---------------------------------------------------------------- C13
M("j5-direction-by-selection", "C13", "quiet", "src/circuit.rs",
  """            let (mut min, mut max) = self.push_sorter(bits, x, y);
            if !ascending {
                mem::swap(&mut min, &mut max);
            }
            bitonic[i] = min;
            bitonic[i + m] = max;""",
  """            let (min, max) = self.push_sorter(bits, x, y);
            let (first, second) = if ascending { (min, max) } else { (max, min) };
            bitonic[i] = first;
            bitonic[i + m] = second;""", "same placement, selected by `ascending` instead of a swap (mem import stays used elsewhere or warns only)")
M("j5-direction-by-selection-inverted", "C13", "fire J5", "src/circuit.rs",
  """            let (mut min, mut max) = self.push_sorter(bits, x, y);
            if !ascending {
                mem::swap(&mut min, &mut max);
            }
            bitonic[i] = min;
            bitonic[i + m] = max;""",
  """            let (min, max) = self.push_sorter(bits, x, y);
            let (first, second) = if ascending { (max, min) } else { (min, max) };
            bitonic[i] = first;
            bitonic[i + m] = second;""", "ascending merges place the larger row first")
M("j7-fold", "C13", "quiet", "src/circuit.rs",
  """        let mut is_eq = 1;
        for (&x, &y) in x.iter().zip(y) {
            let bits_eq = self.push_eq(x, y);
            is_eq = self.push_and(is_eq, bits_eq)
        }
        is_eq""",
  """        x.iter().zip(y).fold(1, |is_eq, (&x, &y)| {
            let bits_eq = self.push_eq(x, y);
            self.push_and(is_eq, bits_eq)
        })""", "same conjunction as a fold")
M("j7-fold-skips-and", "C13", "fire J7", "src/circuit.rs",
  """        let mut is_eq = 1;
        for (&x, &y) in x.iter().zip(y) {
            let bits_eq = self.push_eq(x, y);
            is_eq = self.push_and(is_eq, bits_eq)
        }
        is_eq""",
  """        x.iter().zip(y).fold(1, |is_eq, (&x, &y)| {
            let bits_eq = self.push_eq(x, y);
            if x == y { is_eq } else { self.push_and(is_eq, bits_eq) }
        })""", "fold step can leave the comparison out")
M("j5-sorter2-map-unzip", "C13", "quiet", "src/circuit.rs",
  """        let mut min = vec![];
        let mut max = vec![];
        for (x, y) in x.iter().zip(y.iter()) {
            let (a, b) = self.push_condswap(gt, *x, *y);
            min.push(a);
            max.push(b);
        }
        (min, max)""",
  """        x.iter()
            .zip(y.iter())
            .map(|(&x, &y)| self.push_condswap(gt, x, y))
            .unzip()""", "same 2-sorter with map / unzip")
M("j5-sorter2-map-unzip-crossed", "C13", "fire J5", "src/circuit.rs",
  """        let mut min = vec![];
        let mut max = vec![];
        for (x, y) in x.iter().zip(y.iter()) {
            let (a, b) = self.push_condswap(gt, *x, *y);
            min.push(a);
            max.push(b);
        }
        (min, max)""",
  """        x.iter()
            .zip(y.iter())
            .map(|(&x, &y)| self.push_condswap(gt, y, x))
            .unzip()""", "condswap operands crossed in the closure")
M("j5-sorter2-map-unzip-pair-swapped", "C13", "fire J5", "src/circuit.rs",
  """        let mut min = vec![];
        let mut max = vec![];
        for (x, y) in x.iter().zip(y.iter()) {
            let (a, b) = self.push_condswap(gt, *x, *y);
            min.push(a);
            max.push(b);
        }
        (min, max)""",
  """        x.iter()
            .zip(y.iter())
            .map(|(&x, &y)| {
                let (a, b) = self.push_condswap(gt, x, y);
                (b, a)
            })
            .unzip()""", "closure answers (max, min)")
M("j1-guard-tag-b-only", "C13", "fire J1", "src/compile.rs",
  """        let tags_differ = circuit.push_xor(tag_a, tag_b);
        join_eq = circuit.push_and(join_eq, tags_differ);""",
  """        join_eq = circuit.push_and(join_eq, tag_b);""", "two rows of the second array with equal keys join")
M("j1-no-guard", "C13", "fire J1", "src/compile.rs",
  """        let tags_differ = circuit.push_xor(tag_a, tag_b);
        join_eq = circuit.push_and(join_eq, tags_differ);""",
  """        let _ = (tag_a, tag_b);""", "a key repeated in one array joins with itself")
M("j2-no-final-sort", "C13", "fire J2", "src/compile.rs",
  """                circuit.push_bitonic_sorter(1, &mut joined);
                joined.concat()""",
  """                joined.concat()""", "positions of the matches leak")
M("j2-flag-not-first", "C13", "fire J2", "src/compile.rs",
  """                            for g in binding.iter_mut().skip(1) {
                                *g = circuit.push_mux(join_eq, *g, 0);
                            }""",
  """                            for g in binding.iter_mut().skip(9) {
                                *g = circuit.push_mux(join_eq, *g, 0);
                            }""", "the first byte of non-matching rows is not zeroed")
M("j4-skip-off", "C13", "fire J4", "src/compile.rs",
  """    for slice in bitonic.windows(2).skip(num_empty_elems) {""",
  """    for slice in bitonic.windows(2).skip(num_empty_elems.saturating_sub(1)) {""", "a padding row is paired with the first real row")

# ---------------------------------------------------------------- behaviour-preserving refactors (must stay quiet)
M("q-push-panic-if-loop-order", "C02", "quiet", "src/circuit.rs",
  """        for i in 0..current.panic_type.len() {
            self.panic_gates.result.panic_type[i] = self.push_mux(
                already_panicked,
                self.panic_gates.result.panic_type[i],
                current.panic_type[i],
            );
        }
        self.panic_gates
            .cache""",
  """        for (i, new_bit) in current.panic_type.iter().enumerate() {
            let old_bit = self.panic_gates.result.panic_type[i];
            let muxed = self.push_mux(already_panicked, old_bit, *new_bit);
            self.panic_gates.result.panic_type[i] = muxed;
        }
        self.panic_gates
            .cache""", "behaviour-preserving: loop rewritten with iter().enumerate() and temporaries")
M("q-if-clone-later", "C14", "quiet", "src/compile.rs",
  """                let mut env_if_true = env.clone();
                let mut env_if_false = env.clone();

                let case_true = case_true.compile(prg, &mut env_if_true, circuit);
                let panic_if_true = circuit.replace_panic_with(panic_before_branches.clone());
""",
  """                let mut env_if_true = env.clone();

                let case_true = case_true.compile(prg, &mut env_if_true, circuit);
                let panic_if_true = circuit.replace_panic_with(panic_before_branches.clone());
                let mut env_if_false = env.clone();
""", "behaviour-preserving: the else copy is taken after the then branch was lowered (env itself is untouched)")
M("q-if-clone-later-c02", "C02", "quiet", "src/compile.rs",
  """                let mut env_if_true = env.clone();
                let mut env_if_false = env.clone();

                let case_true = case_true.compile(prg, &mut env_if_true, circuit);
                let panic_if_true = circuit.replace_panic_with(panic_before_branches.clone());
""",
  """                let mut env_if_true = env.clone();

                let case_true = case_true.compile(prg, &mut env_if_true, circuit);
                let panic_if_true = circuit.replace_panic_with(panic_before_branches.clone());
                let mut env_if_false = env.clone();
""", "same refactor seen by the panic-record rules")
M("q-cast-checks-swapped", "C17", "quiet", "src/check.rs",
  """                expect_bool_or_num_type(&expr.ty, meta)?;
                expect_bool_or_num_type(&ty, meta)?;""",
  """                expect_bool_or_num_type(&ty, meta)?;
                expect_bool_or_num_type(&expr.ty, meta)?;""", "behaviour-preserving for acceptance")
M("q-scan-arm-order", "C07", "quiet", "src/scan.rs",
  """                ' ' | '\\r' | '\\t' => {
                    self.current_token_start = (self.line, self.column);
                }
                '\\n' => {
                    self.line += 1;
                    self.column = 0;
                }""",
  """                '\\n' => {
                    self.line += 1;
                    self.column = 0;
                }
                ' ' | '\\r' | '\\t' => {
                    self.current_token_start = (self.line, self.column);
                }""", "behaviour-preserving: disjoint match arms reordered")
M("q-is-of-type-arm-order", "C09", "quiet", "src/literal.rs",
  """            (Literal::True, Type::Bool) => true,
            (Literal::False, Type::Bool) => true,""",
  """            (Literal::False, Type::Bool) => true,
            (Literal::True, Type::Bool) => true,""", "behaviour-preserving: disjoint arms reordered")
M("q-consts-rename", "C12", "quiet", "src/compile.rs",
  """        let mut errs = vec![];
        for (party, deps) in self.const_deps.iter() {
            for (c, (ty, meta)) in deps {""",
  """        let mut errs: Vec<CompilerError> = Vec::new();
        for (party, deps) in self.const_deps.iter() {
            for (c, (ty, meta)) in deps.iter() {""", "behaviour-preserving: explicit type, Vec::new, .iter()")
M("q-validate-match", "C16", "quiet", "src/circuit.rs",
  """                Wire::Not(x) => {
                    if x >= i {
                        return Err(CircuitError::InvalidGate(i));
                    }
                }""",
  """                Wire::Not(x) => {
                    if i <= x {
                        return Err(CircuitError::InvalidGate(i));
                    }
                }""", "behaviour-preserving: comparison written the other way round")

# ---------------------------------------------------------------- C13 J5 (network shape)
M("j5-stride-half", "C13", "fire J5", "src/circuit.rs",
  """        let m = bitonic.len().next_power_of_two() / 2; // prev power of two""",
  """        let m = bitonic.len().div_ceil(2);""", "seed C13-b: stride is half the length, not a power of two")
M("j5-min-max-swapped", "C13", "fire J5", "src/circuit.rs",
  """            bitonic[i] = min;
            bitonic[i + m] = max;""",
  """            bitonic[i] = max;
            bitonic[i + m] = min;""", "merger sorts the wrong way round")
M("j5-swap-on-ascending", "C13", "fire J5", "src/circuit.rs",
  """            if !ascending {
                mem::swap(&mut min, &mut max);""",
  """            if ascending {
                mem::swap(&mut min, &mut max);""", "direction flag inverted in the merger only")
M("j5-merger-rec-flip", "C13", "fire J5", "src/circuit.rs",
  """        self.push_bitonic_merger(bits, ascending, lower);
        self.push_bitonic_merger(bits, ascending, upper);""",
  """        self.push_bitonic_merger(bits, ascending, lower);
        self.push_bitonic_merger(bits, !ascending, upper);""", "upper half merged in the opposite direction")
M("j5-merger-rec-same-half", "C13", "fire J5", "src/circuit.rs",
  """        self.push_bitonic_merger(bits, ascending, lower);
        self.push_bitonic_merger(bits, ascending, upper);""",
  """        self.push_bitonic_merger(bits, ascending, lower);
        let _ = upper;""", "upper half never merged")
M("j5-sorter-same-dir", "C13", "fire J5", "src/circuit.rs",
  """            push_bitonic_sorter_inner(c, bits, !ascending, lower);""",
  """            push_bitonic_sorter_inner(c, bits, ascending, lower);""", "both halves sorted in the same direction: input of the merger not bitonic")
M("j5-gt-swapped", "C13", "fire J5", "src/circuit.rs",
  """        let gt = self.push_gt_circuit(bits, x, y);
        let mut min = vec![];""",
  """        let gt = self.push_gt_circuit(bits, y, x);
        let mut min = vec![];""", "2-sorter swaps when x < y")
M("j5-return-swapped", "C13", "fire J5", "src/circuit.rs",
  """            min.push(a);
            max.push(b);
        }
        (min, max)""",
  """            min.push(a);
            max.push(b);
        }
        (max, min)""", "2-sorter returns (max, min)")
M("j5-quiet-shift-form", "C13", "quiet", "src/circuit.rs",
  """        let m = bitonic.len().next_power_of_two() / 2; // prev power of two""",
  """        let len = bitonic.len();
        let m = 1usize << (usize::BITS - 1 - (len - 1).leading_zeros());""", "behaviour-preserving: greatest power of two below len by bit tricks")

# ---------------------------------------------------------------- fourth seed batch as mutants
M("p2-snapshot-before-condition", "C02", "fire P2", "src/compile.rs",
  """                let condition = condition.compile(prg, env, circuit);
                let panic_before_branches = circuit.peek_panic().clone();
""",
  """                let panic_before_branches = circuit.peek_panic().clone();
                let condition = condition.compile(prg, env, circuit);
""", "seed C02-c: else branch lowered from a record saved before the condition")
M("f6-renderer-sub", "C07", "fire F6", "src/lib.rs",
  """            for _ in 0..col_start {
                msg += " ";
            }
            for _ in col_start..col_end {
                msg += "^";
            }""",
  """            msg += &" ".repeat(col_start);
            msg += &"^".repeat(col_end - col_start);""", "seed C07-c: unordered columns subtracted in the renderer")
M("f6-renderer-sub-guarded", "C07", "quiet", "src/lib.rs",
  """            for _ in 0..col_start {
                msg += " ";
            }
            for _ in col_start..col_end {
                msg += "^";
            }""",
  """            msg += &" ".repeat(col_start);
            if col_start < col_end {
                msg += &"^".repeat(col_end - col_start);
            }""", "behaviour-preserving: difference taken after comparing")
M("u2-swapped-lookup-guarded", "C15", "fire U2", "src/circuit.rs",
  """                BuilderGate::Xor(x, y) => self.cache.get(&BuilderGate::Xor(*y, *x)),
                BuilderGate::And(x, y) => self.cache.get(&BuilderGate::And(*y, *x)),""",
  """                BuilderGate::Xor(x, y) if x > y => self.cache.get(&BuilderGate::Xor(*y, *x)),
                BuilderGate::And(x, y) if x > y => self.cache.get(&BuilderGate::And(*y, *x)),
                _ => None,""", "seed C15-b: swapped lookup only for descending operands")
M("t7-unify-wildcard", "C17", "fire T7", "src/check.rs",
  """        (Type::Unsigned(UnsignedNumType::Unspecified), Type::Unsigned(ty2)) => {
            constrain_type(e1, &Type::Unsigned(*ty2))?;
            Type::Unsigned(*ty2)
        }""",
  """        (Type::Unsigned(UnsignedNumType::Unspecified), ty2) if !matches!(e1.inner, ExprEnum::Identifier(_)) => {
            let ty2 = ty2.clone();
            constrain_type(e1, &ty2)?;
            ty2
        }""", "seed C17-c (one arm): an unsuffixed literal unifies with any type")
M("t7-check-type-no-compare", "C17", "fire T7", "src/check.rs",
  """    constrain_type(expr, expected)?;
    if &expr.ty == expected {
        Ok(())""",
  """    constrain_type(expr, expected)?;
    if &expr.ty == expected || matches!(expr.ty, Type::Unsigned(UnsignedNumType::Unspecified)) {
        Ok(())""", "check_type accepts an unconstrained literal type against anything")
M("o7-and-absorb-drops-shared", "C04", "fire O7", "src/circuit.rs",
  """                    if x1 == y1 || x2 == y1 {
                        return self.push_and(x, y2);""",
  """                    if x1 == y1 {
                        return self.push_and(x, y2);
                    } else if x2 == y1 {
                        return self.push_and(x1, y2);""", "seed C04-b: (p & q) & (q & r) becomes p & r")
M("o7-and-absorb-returns-input", "C04", "fire O7", "src/circuit.rs",
  """                    if x == y1 || x == y2 {
                        self.gates_optimized += 1;
                        return y;""",
  """                    if x == y1 || x == y2 {
                        self.gates_optimized += 1;
                        return x;""", "x & (x & z) becomes x")
M("o7-quiet-split-disjunction", "C04", "quiet", "src/circuit.rs",
  """                    if x1 == y1 || x2 == y1 {
                        return self.push_and(x, y2);""",
  """                    if x1 == y1 {
                        return self.push_and(x, y2);
                    } else if x2 == y1 {
                        return self.push_and(y2, x);""", "behaviour-preserving: disjunction split, operands commuted")

# ---------------------------------------------------------------- C10 R1b / R7
M("r1b-not-operand-unrecorded", "C10", "fire R1b", "src/register_circuit.rs",
  """            Wire::Not(a) => {
                last_used.insert(a, gate_id);
            }""",
  """            Wire::Not(_) => {}""", "operands of NOT gates are never recorded as uses")
M("r1b-second-operand-unrecorded", "C10", "fire R1b", "src/register_circuit.rs",
  """                last_used.insert(a, gate_id);
                last_used.insert(b, gate_id);""",
  """                last_used.insert(a, gate_id);
                last_used.insert(a.max(b), gate_id);""", "second operand recorded only when it is the larger index")
M("r7-release-before-last-use", "C10", "fire R7", "src/register_circuit.rs",
  """        if let Some(&last_use) = self.last_used.get(&a) {
            if last_use == gate_id {""",
  """        if let Some(&last_use) = self.last_used.get(&a) {
            if last_use <= gate_id + 1 {""", "operand a released one gate early")
M("r7-compare-other-operand", "C10", "fire R7", "src/register_circuit.rs",
  """            if let Some(&last_use) = self.last_used.get(&b) {
                if last_use == gate_id {""",
  """            if let Some(&last_use) = self.last_used.get(&a) {
                if last_use == gate_id {""", "b released when a dies")

M("o5-quiet-ne-form", "C04", "quiet", "src/circuit.rs",
  """        if x == 0 {
            return Some(y);
        } else if y == 0 {
            return Some(x);
        } else if x == y {
            return Some(0);
        } else if let Some(&x_negated) = self.negated.get(&x) {
            if x_negated == y {
                return Some(1);""",
  """        if x != 0 {
            if y == 0 {
                return Some(x);
            }
        } else {
            return Some(y);
        }
        if x == y {
            return Some(0);
        } else if let Some(&x_negated) = self.negated.get(&x) {
            if x_negated == y {
                return Some(1);""", "behaviour-preserving: first folding case written with !=")
M("r7-quiet-ne-form", "C10", "quiet", "src/register_circuit.rs",
  """                if last_use == gate_id {
                    // This might be None if a == b, as we already removed a previously
                    if let Some(reg) = self.wire_map.remove(&b) {
                        if reuse_reg.is_some() {
                            self.free_regs.push(reg);
                        } else {
                            reuse_reg = Some(reg);
                        }
                    }
                }""",
  """                if last_use != gate_id {
                    // still live
                } else if let Some(reg) = self.wire_map.remove(&b) {
                    if reuse_reg.is_some() {
                        self.free_regs.push(reg);
                    } else {
                        reuse_reg = Some(reg);
                    }
                }""", "behaviour-preserving: last-use test written with !=")

# ---------------------------------------------------------------- C11 B4
M("b4-output-wires-not-mapped", "C11", "fire B4", "src/convert.rs",
  """            if output_wire >= first_output_wire {
                output_gates[output_wire - first_output_wire] = next_wire;
            }

            wires_map[output_wire] = next_wire;""",
  """            if output_wire >= first_output_wire {
                output_gates[output_wire - first_output_wire] = next_wire;
            } else {
                wires_map[output_wire] = next_wire;
            }""", "seed C11-b: output wires are not entered into the translation table")
M("b4-counter-only-for-inner-wires", "C11", "fire B4", "src/convert.rs",
  """            wires_map[output_wire] = next_wire;
            next_wire += 1;""",
  """            wires_map[output_wire] = next_wire;
            if output_wire < first_output_wire {
                next_wire += 1;
            }""", "gates writing output wires share one wire number")
M("b4-quiet-map-first", "C11", "quiet", "src/convert.rs",
  """            if output_wire >= first_output_wire {
                output_gates[output_wire - first_output_wire] = next_wire;
            }

            wires_map[output_wire] = next_wire;""",
  """            wires_map[output_wire] = next_wire;
            if output_wire >= first_output_wire {
                output_gates[output_wire - first_output_wire] = next_wire;
            }""", "behaviour-preserving: table written before the output bookkeeping")

# ---------------------------------------------------------------- C12 K6
# (REVERT of ffb1904 - const tables - no longer applies after b9081bb; the k6-* mutants cover K6)
M("k6-external-alias-not-recorded", "C12", "fire K6", "src/compile.rs",
  """                    const_sizes.insert(const_name.clone(), *const_sizes.get(&identifier).unwrap());
                }
                let n = resolve_const_expr_unsigned(&const_def.value, &consts_unsigned, USIZE_BITS);
                const_sizes.insert(const_name.clone(), n as usize);
                consts_unsigned.insert(const_name.clone(), n);""",
  """                    const_sizes.insert(const_name.clone(), *const_sizes.get(&identifier).unwrap());
                } else {
                    let n = resolve_const_expr_unsigned(&const_def.value, &consts_unsigned, USIZE_BITS);
                    const_sizes.insert(const_name.clone(), n as usize);
                    consts_unsigned.insert(const_name.clone(), n);
                }""", "seed C12-c: a usize const that aliases an external value is recorded as a size only")
M("k6-quiet-insert-first", "C12", "quiet", "src/compile.rs",
  """                let n = resolve_const_expr_unsigned(&const_def.value, &consts_unsigned, USIZE_BITS);
                const_sizes.insert(const_name.clone(), n as usize);
                consts_unsigned.insert(const_name.clone(), n);""",
  """                let n = resolve_const_expr_unsigned(&const_def.value, &consts_unsigned, USIZE_BITS);
                consts_unsigned.insert(const_name.clone(), n);
                const_sizes.insert(const_name.clone(), n as usize);""", "behaviour-preserving: order of the two insertions swapped")

# ---------------------------------------------------------------- sweep: C04 O8 / C15 U3b
M("o8-second-operand-not-followed", "C04", "fire O8", "src/circuit.rs",
  """                if y >= shift && !used_gates[y - shift] {
                    output_gate_stack.push(y);
                }""",
  """                if y >= shift && !used_gates[y - shift] && x < shift {
                    output_gate_stack.push(y);
                }""", "second operand followed only when the first is an input")
M("o8-panic-field-not-root", "C04", "fire O8", "src/circuit.rs",
  """        output_gate_stack.extend(self.panic_gates.result.end_line.iter());
        output_gate_stack.extend(self.panic_gates.result.end_column.iter());""",
  """        output_gate_stack.extend(self.panic_gates.result.end_line.iter());""", "end_column wires of the panic record are not roots")
M("u3b-keep-all-and-gates", "C15", "fire U3b", "src/circuit.rs",
  """        for (w, &used) in used_gates.iter().enumerate() {
            if used {
                without_unused_gates.push(self.gates[w]);
            }
        }""",
  """        for (w, &used) in used_gates.iter().enumerate() {
            if used {
                without_unused_gates.push(self.gates[w]);
            } else if unused_gates == 0 {
                without_unused_gates.push(self.gates[w]);
            }
        }""", "a second copy path that does not look at the mark (dead code today, live after any refactoring of the counter)")
M("u3b-mark-neighbours", "C15", "fire U3b", "src/circuit.rs",
  """                used_gates[shifted_index] = true;
                let (x, y) = match self.gates[shifted_index] {""",
  """                used_gates[shifted_index] = true;
                used_gates[0] = true;
                let (x, y) = match self.gates[shifted_index] {""", "the first gate is always kept")

# ---------------------------------------------------------------- C08 M4
M("m4-struct-offset-only-for-matched-fields", "C08", "fire M4", "src/compile.rs",
  """                        is_match = circuit.push_and(is_match, is_field_match);
                    }
                    w += field_bits;
                }
                is_match
            }
            PatternEnum::EnumUnit(enum_name, variant_name)""",
  """                        is_match = circuit.push_and(is_match, is_field_match);
                        w += field_bits;
                    }
                }
                is_match
            }
            PatternEnum::EnumUnit(enum_name, variant_name)""", "struct pattern with `..`: fields after a skipped one are matched against the wrong bits")
M("m4-tuple-verdict-overwritten", "C08", "fire M4", "src/compile.rs",
  """                    let is_field_match = field.compile(match_expr, prg, env, circuit);
                    is_match = circuit.push_and(is_match, is_field_match);
                    w += field_bits;
                }
                is_match
            }
            PatternEnum::Struct(struct_name, fields)""",
  """                    let is_field_match = field.compile(match_expr, prg, env, circuit);
                    is_match = is_field_match;
                    w += field_bits;
                }
                is_match
            }
            PatternEnum::Struct(struct_name, fields)""", "only the last tuple field decides")
M("m4-enum-fields-start-at-zero", "C08", "quiet", "src/compile.rs",
  """                        let mut w = tag_size;
                        let field_types = enum_def""",
  """                        let mut w = tag_size + 0;
                        let field_types = enum_def""", "behaviour-preserving no-op edit of the start offset")
M("m4-enum-slice-wrong-width", "C08", "fire M4", "src/compile.rs",
  """                            let match_expr = &match_expr[w..w + field_bits];
                            let is_field_match = field.compile(match_expr, prg, env, circuit);
                            is_match = circuit.push_and(is_match, is_field_match);
                            w += field_bits;
                        }
                    }
                    _ => unreachable!(),""",
  """                            let match_expr = &match_expr[w..w + tag_size];
                            let is_field_match = field.compile(match_expr, prg, env, circuit);
                            is_match = circuit.push_and(is_match, is_field_match);
                            w += field_bits;
                        }
                    }
                    _ => unreachable!(),""", "enum variant fields sliced with the tag width")

# ---------------------------------------------------------------- C13 J6
M("j6-b-not-reversed", "C13", "fire J6", "src/compile.rs",
  """    for i in (0..num_elems_b).rev() {""",
  """    for i in 0..num_elems_b {""", "rows of b pushed ascending: the input of the merger is not bitonic")
M("j6-tag-removed-at-zero", "C13", "fire J6", "src/compile.rs",
  """        let tag_b = b.remove(join_ty_size);""",
  """        let tag_b = b.remove(0);""", "tag of the second row taken from the first key bit")
M("j6-merger-key-only", "C13", "fire J6", "src/compile.rs",
  """    circuit.push_bitonic_merger(join_ty_size + 1, true, &mut bitonic);""",
  """    circuit.push_bitonic_merger(join_ty_size, true, &mut bitonic);""", "tag bit not part of the merge order")
M("j6-truncate-a-width-for-b", "C13", "fire J6", "src/compile.rs",
  """        b.truncate(elem_bits_b);""",
  """        b.truncate(elem_bits_a);""", "rows of b cut to the element width of a")
M("j6-quiet-rev-collect", "C13", "quiet", "src/compile.rs",
  """        // Here the tag bit is 1
        v.insert(join_ty_size, 1);""",
  """        // Here the tag bit is 1
        let tag_pos = join_ty_size;
        v.insert(tag_pos, 1);""", "behaviour-preserving: tag position through a local")

# ---------------------------------------------------------------- C14 E8
M("e8-outer-scope-not-muxed", "C14", "fire E8", "src/circuit.rs",
  """        for (a, b) in a.0.iter().zip(b.0.iter()) {
            muxed.push();""",
  """        for (depth, (a, b)) in a.0.iter().zip(b.0.iter()).enumerate() {
            if depth == 0 {
                muxed.0.push(a.clone());
                continue;
            }
            muxed.push();""", "seed C14-d: the outermost scope (mut parameters of main) is taken from the first environment")
M("e8-outer-scope-rebound-unmuxed", "C14", "fire E8", "src/circuit.rs",
  """                let binding_b = b.get(identifier).unwrap();
                if binding_a.len() != binding_b.len() {""",
  """                let binding_b = b.get(identifier).unwrap();
                if muxed.0.len() == 1 {
                    muxed.let_in_current_scope(identifier.clone(), binding_a.clone());
                    continue;
                }
                if binding_a.len() != binding_b.len() {""", "same idea through the Env API: bindings of the outermost scope are copied from a")
M("e8-mux-operands-swapped", "C14", "fire E8", "src/circuit.rs",
  """                    binding[i] = self.push_mux(condition, if_true, if_false);""",
  """                    binding[i] = self.push_mux(condition, if_false, if_true);""", "merged environment takes b when the condition holds")

# ---------------------------------------------------------------- C04 O8 quiet variants / seed C04-c
M("o8-quiet-roots-in-a-loop", "C04", "quiet", "src/circuit.rs",
  """        output_gate_stack.extend(self.panic_gates.result.panic_type.iter());
        output_gate_stack.extend(self.panic_gates.result.start_line.iter());
        output_gate_stack.extend(self.panic_gates.result.start_column.iter());
        output_gate_stack.extend(self.panic_gates.result.end_line.iter());
        output_gate_stack.extend(self.panic_gates.result.end_column.iter());""",
  """        let panic = &self.panic_gates.result;
        for wires in [
            &panic.panic_type,
            &panic.start_line,
            &panic.start_column,
            &panic.end_line,
            &panic.end_column,
        ] {
            output_gate_stack.extend(wires.iter());
        }""", "behaviour-preserving: the five root vectors registered in a loop")
M("o8-quiet-roots-filtered-correctly", "C04", "quiet", "src/circuit.rs",
  """        output_gate_stack.extend(self.panic_gates.result.panic_type.iter());
        output_gate_stack.extend(self.panic_gates.result.start_line.iter());
        output_gate_stack.extend(self.panic_gates.result.start_column.iter());
        output_gate_stack.extend(self.panic_gates.result.end_line.iter());
        output_gate_stack.extend(self.panic_gates.result.end_column.iter());""",
  """        let panic = &self.panic_gates.result;
        for wires in [
            &panic.panic_type,
            &panic.start_line,
            &panic.start_column,
            &panic.end_line,
            &panic.end_column,
        ] {
            output_gate_stack.extend(wires.iter().filter(|&&w| w >= shift));
        }""", "behaviour-preserving: constants are not put on the worklist (they are skipped when popped anyway)")
M("o8-roots-filtered-off-by-one", "C04", "fire O8", "src/circuit.rs",
  """        output_gate_stack.extend(self.panic_gates.result.panic_type.iter());
        output_gate_stack.extend(self.panic_gates.result.start_line.iter());
        output_gate_stack.extend(self.panic_gates.result.start_column.iter());
        output_gate_stack.extend(self.panic_gates.result.end_line.iter());
        output_gate_stack.extend(self.panic_gates.result.end_column.iter());""",
  """        let panic = &self.panic_gates.result;
        for wires in [
            &panic.panic_type,
            &panic.start_line,
            &panic.start_column,
            &panic.end_line,
            &panic.end_column,
        ] {
            output_gate_stack.extend(wires.iter().filter(|&&w| w > shift));
        }""", "seed C04-c: the first emitted gate is never a root")

# ---------------------------------------------------------------- C05
M("s2-shift-left-operand-only-stamped", "C03", "fire A12", "src/check.rs",
  """            Op::ShiftLeft | Op::ShiftRight => constrain_type(a, ty)?,""",
  """            Op::ShiftLeft | Op::ShiftRight => overwrite_ty_if_necessary(&mut a.ty, ty, false),""", "seed C05-a: literals inside a compound left operand of a shift keep their default width")
M("s2-if-else-branch-not-constrained", "C05", "fire S2", "src/check.rs",
  """            constrain_type(then_expr, ty)?;
            constrain_type(else_expr, ty)?;""",
  """            constrain_type(then_expr, ty)?;
            overwrite_ty_if_necessary(&mut else_expr.ty, ty, false);""", "else branch keeps unconstrained literals")
M("s2-match-first-clause-only", "C05", "fire S2", "src/check.rs",
  """            for (_, body) in clauses.iter_mut() {
                constrain_type(body, ty)?;
            }""",
  """            if let Some((_, body)) = clauses.first_mut() {
                constrain_type(body, ty)?;
            }""", "only the first match clause is constrained")
M("s1-party-size-from-first-param", "C05", "fire S1", "src/compile.rs",
  """                let mut wires = Vec::with_capacity(type_size);
                for _ in 0..type_size {
                    wires.push(wire);
                    wire += 1;
                }
                input_gates.push(type_size);""",
  """                let mut wires = Vec::with_capacity(type_size);
                for _ in 0..type_size {
                    wires.push(wire);
                    wire += 1;
                }
                input_gates.push(wires.capacity());""", "party size taken from the capacity of the vector (may be larger than the number of wires)")
M("s1-wires-one-short-for-zero-sized", "C05", "fire S1", "src/compile.rs",
  """                for _ in 0..type_size {
                    wires.push(wire);
                    wire += 1;
                }
                input_gates.push(type_size);
                params.push((param.name.clone(), wires));""",
  """                for _ in 0..type_size.max(1) {
                    wires.push(wire);
                    wire += 1;
                }
                input_gates.push(type_size);
                params.push((param.name.clone(), wires));""", "zero-sized parameters get one wire although their party has no bits")
M("s3-build-caps-output-width", "C05", "fire S3", "src/compile.rs",
  """        env.pop();
        Ok((circuit.build(output_gates), fn_def, const_sizes))""",
  """        env.pop();
        Ok((circuit.build(output_gates[..output_gates.len().min(64)].to_vec()), fn_def, const_sizes))""", "results wider than 64 bits are cut off")
M("s4-b-rows-not-truncated", "C05", "fire S4", "src/compile.rs",
  """        let tag_b = b.remove(join_ty_size);
        b.truncate(elem_bits_b);""",
  """        let tag_b = b.remove(join_ty_size);""", "seed C05-b: rows of b keep the padding")

# ---------------------------------------------------------------- C01
REVERT("revert-struct-literal-source-order", "C01", "fire V4", "32ed1a6", "pre-fix tree: struct literal fields sorted by the parser and evaluated in definition order")
M("v4-parser-sorts-struct-literals-again", "C01", "fire V4", "src/parse.rs",
  """                        if only_literal_children {
                            // (a literal value has its fields in a canonical order)
                            fields.sort_by(|(f1, _), (f2, _)| f1.cmp(f2));
                        }""",
  """                        fields.sort_by(|(f1, _), (f2, _)| f1.cmp(f2));""", "written order of the fields lost in the parser")
REVERT("revert-foreach-per-element", "C01", "fire V3", "fb2511c", "pre-fix tree: for-each counts groups of wires, zero-sized elements never iterate")
M("v3-quiet-foreach-index", "C01", "quiet", "src/compile.rs",
  """                    let Some(binding) = array.get(i..i + elem_in_bits) else {
                        break;
                    };""",
  """                    let binding = &array[i..i + elem_in_bits];""", "same loop with a plain slice")
M("v3-foreach-count-from-wires-again", "C01", "fire V3", "src/compile.rs",
  """                for _ in 0..size {
                    let Some(binding) = array.get(i..i + elem_in_bits) else {""",
  """                let _ = size;
                for _ in 0..array.len().checked_div(elem_in_bits).unwrap_or(0) {
                    let Some(binding) = array.get(i..i + elem_in_bits) else {""", "iteration count computed from the wires")
M("v1-if-branches-swapped", "C01", "fire V1", "src/compile.rs",
  """                    gate_indexes.push(circuit.push_mux(condition, case_true[i], case_false[i]));""",
  """                    gate_indexes.push(circuit.push_mux(condition, case_false[i], case_true[i]));""", "if returns the else value when the condition holds")
M("v1-and-is-or", "C01", "fire V1", "src/compile.rs",
  """                vec![circuit.push_and(x[0], y[0])]""",
  """                vec![circuit.push_or(x[0], y[0])]""", "&& evaluates to the disjunction")
M("v2-tuple-offset-includes-field", "C01", "fire V2", "src/compile.rs",
  """                        for v in values[0..*index].iter() {
                            wires_before += v.size_in_bits_for_defs(prg, circuit.const_sizes());
                        }
                        (
                            wires_before,
                            values[*index].size_in_bits_for_defs(prg, circuit.const_sizes()),
                        )
                    }
                    _ => panic!("Expected a tuple type, but found {:?}", tuple.meta),""",
  """                        for v in values[0..*index].iter().skip(1) {
                            wires_before += v.size_in_bits_for_defs(prg, circuit.const_sizes());
                        }
                        (
                            wires_before,
                            values[*index].size_in_bits_for_defs(prg, circuit.const_sizes()),
                        )
                    }
                    _ => panic!("Expected a tuple type, but found {:?}", tuple.meta),""", "first element not counted in the offset")
M("v2-quiet-struct-size-added-before-compare", "C01", "quiet", "src/compile.rs",
  """                        let bits_of_field =
                            field_ty.size_in_bits_for_defs(prg, circuit.const_sizes());
                        if field_name == field {
                            return struct_expr[bits..bits + bits_of_field].to_vec();
                        }
                        bits += bits_of_field;""",
  """                        let bits_of_field =
                            field_ty.size_in_bits_for_defs(prg, circuit.const_sizes());
                        bits += bits_of_field;
                        if field_name == field {
                            return struct_expr[bits - bits_of_field..bits].to_vec();
                        }""", "behaviour-preserving: size added first, slice [bits - size .. bits]")
M("v3-foreach-steps-by-one", "C01", "fire V3", "src/compile.rs",
  """                    env.pop();
                    i += elem_in_bits;
                }""",
  """                    env.pop();
                    i += 1;
                }""", "for-each advances one bit per iteration")
M("v4-array-literal-reversed", "C01", "fire V4", "src/compile.rs",
  """                for elem in elems {
                    wires.extend(elem.compile(prg, env, circuit));
                }""",
  """                for elem in elems.iter().rev() {
                    wires.extend(elem.compile(prg, env, circuit));
                }""", "array literal elements stored in reverse")
M("v4-repeat-one-more", "C01", "fire V4", "src/compile.rs",
  """                let mut array = Vec::with_capacity(bits);
                for _ in 0..*size {
                    array.extend_from_slice(&elem);
                }""",
  """                let mut array = Vec::with_capacity(bits);
                for _ in 0..*size + 1 {
                    array.extend_from_slice(&elem);
                }""", "[x; n] has n + 1 elements")
M("v5-enum-offset-by-one", "C01", "fire V5", "src/compile.rs",
  """                            wires[w..w + f.len()].copy_from_slice(&f);
                            w += f.len();""",
  """                            wires[w..w + f.len()].copy_from_slice(&f);
                            w += 1;""", "second enum field overlaps the first")
M("v6-block-value-dropped", "C01", "fire V6", "src/compile.rs",
  """    for stmt in stmts {
        expr = stmt.compile(prg, env, circuit);
    }""",
  """    for stmt in stmts {
        let wires = stmt.compile(prg, env, circuit);
        if expr.is_empty() {
            expr = wires;
        }
    }""", "a block evaluates to its first non-unit statement")
M("v7-params-reversed", "C01", "fire V7", "src/compile.rs",
  """                for (param, arg) in fn_def.params.iter().zip(args) {""",
  """                for (param, arg) in fn_def.params.iter().rev().zip(args) {""", "arguments bound to the parameters in reverse")
M("v8-read-mux-swapped", "C01", "fire V8", "src/compile.rs",
  """                                let a0 = array[i];
                                let a1 = array[i + elem_bits];
                                muxed_array.push(circuit.push_mux(s, a1, a0));""",
  """                                let a0 = array[i];
                                let a1 = array[i + elem_bits];
                                muxed_array.push(circuit.push_mux(s, a0, a1));""", "array read selects the lower element when the index bit is set")
M("v9-record-width-is-offset", "C01", "fire V9", "src/compile.rs",
  """                            accessed.push(Assign::Tuple(
                                tuple_before_access,
                                wires_before,
                                wires_at_index,
                            ));""",
  """                            accessed.push(Assign::Tuple(
                                tuple_before_access,
                                wires_before,
                                wires_before,
                            ));""", "write-back width is the offset")
M("v4-quiet-iter-explicit", "C01", "quiet", "src/compile.rs",
  """                for value in tuple {
                    wires.extend(value.compile(prg, env, circuit));
                }""",
  """                for value in tuple.iter() {
                    let value_wires = value.compile(prg, env, circuit);
                    wires.extend(value_wires);
                }""", "behaviour-preserving: explicit iter and a temporary")

M("v2-struct-size-added-before-compare-unadjusted", "C01", "fire V2", "src/compile.rs",
  """                        let bits_of_field =
                            field_ty.size_in_bits_for_defs(prg, circuit.const_sizes());
                        if field_name == field {
                            return struct_expr[bits..bits + bits_of_field].to_vec();
                        }
                        bits += bits_of_field;""",
  """                        let bits_of_field =
                            field_ty.size_in_bits_for_defs(prg, circuit.const_sizes());
                        bits += bits_of_field;
                        if field_name == field {
                            return struct_expr[bits..bits + bits_of_field].to_vec();
                        }""", "the accessed field's own size is part of its offset")

M("v11-and-reads-x-twice", "C01", "fire V11", "src/circuit.rs",
  """                Gate::And(x, y) => output[*x].unwrap() & output[*y].unwrap(),""",
  """                Gate::And(x, y) => output[*x].unwrap() & output[*x].unwrap(),""", "reference evaluator: AND of a wire with itself")
M("v11-register-not-is-identity", "C01", "fire V11", "src/register_circuit.rs",
  """                Op::Not(Not(a)) => !regs[a],""",
  """                Op::Not(Not(a)) => regs[a],""", "register evaluator: NOT copies")
M("v11-quiet-operands-commuted", "C01", "quiet", "src/circuit.rs",
  """                Gate::Xor(x, y) => output[*x].unwrap() ^ output[*y].unwrap(),""",
  """                Gate::Xor(x, y) => output[*y].unwrap() ^ output[*x].unwrap(),""", "behaviour-preserving: operands of xor commuted")

M("s2-i32-default-skips-tuple-elements", "C05", "fire S2", "src/check.rs",
  """                                ExprEnum::ArrayLiteral(exprs) | ExprEnum::TupleLiteral(exprs) => {
                                    for expr in exprs {
                                        constrain_to_i32(expr)?;
                                    }
                                }""",
  """                                ExprEnum::ArrayLiteral(exprs) => {
                                    for expr in exprs {
                                        constrain_to_i32(expr)?;
                                    }
                                }""", "let mut t = (1, 2): the tuple type says i32 but the literals stay unconstrained")

# ---------------------------------------------------------------- seventh seed batch as mutants
M("o9-distribution-wrong-operand", "C04", "fire O9", "src/circuit.rs",
  """                        self.get_cached(&BuilderGate::And(x, y1)),
                        self.get_cached(&BuilderGate::And(x, y2)),""",
  """                        self.get_cached(&BuilderGate::And(y1, y)),
                        self.get_cached(&BuilderGate::And(y2, y)),""", "seed C01-c: x & (y1 ^ y2) looks up y1 & y and y2 & y")
M("o10-factoring-inner-uses-shared", "C04", "fire O10", "src/circuit.rs",
  """                            let a2_xor_b2 = match self.optimize_xor(a2, b2) {
                                Some(wire) => wire,
                                None => self.push_gate(BuilderGate::Xor(a2, b2)),
                            };""",
  """                            let a2_xor_b2 = match self.optimize_xor(a1, b2) {
                                Some(wire) => wire,
                                None => self.push_gate(BuilderGate::Xor(a1, b2)),
                            };""", "(a&b)^(a&c) becomes a & (a ^ c)")
M("o10-pairing-row-duplicated", "C04", "fire O10", "src/circuit.rs",
  """                    for (a1, a2, b1, b2) in [
                        (x1, x2, y1, y2),
                        (x1, x2, y2, y1),
                        (x2, x1, y1, y2),
                        (x2, x1, y2, y1),
                    ] {
                        if a1 == b1 {
                            // the two gates""",
  """                    for (a1, a2, b1, b2) in [
                        (x1, x2, y1, y2),
                        (x1, x2, y2, y1),
                        (x2, x1, y1, y2),
                        (x2, x2, y2, y1),
                    ] {
                        if a1 == b1 {
                            // the two gates""", "last pairing row names x2 twice")
M("a4-mul-by-minus-one-identity", "C03", "fire A4", "src/compile.rs",
  """                        if n == 0 {
                            continue;
                        }
                        if n < bits {""",
  """                        if n == 0 {
                            continue;
                        }
                        if n == 1 {
                            return y.compile(prg, env, circuit);
                        }
                        if n < bits {""", "seed C03-d: x * -1 returns x")
M("a4-quiet-mul-by-one-fast-path", "C03", "quiet", "src/compile.rs",
  """                        if n == 0 {
                            continue;
                        }
                        if n < bits {""",
  """                        if n == 0 {
                            continue;
                        }
                        if n == 1 && !is_neg {
                            return y.compile(prg, env, circuit);
                        }
                        if n < bits {""", "behaviour-preserving fast path for x * 1")
M("r8-dead-wires-skipped", "C10", "fire R8", "src/register_circuit.rs",
  """        for (gate_id, w) in self.circ.wires().enumerate() {
            let inst = match w {""",
  """        for (gate_id, w) in self.circ.wires().enumerate() {
            if !self.last_used.contains_key(&gate_id) {
                continue;
            }
            let inst = match w {""", "seed C10-d: wires that nobody reads get no instruction (and are not counted)")

# ---------------------------------------------------------------- C09 L7 through helpers
M2("l7-quiet-array-helper", "C09", "quiet", [
  ("src/literal.rs", """            Type::Array(ty, size) => {
                let ty_size = ty.size_in_bits_for_defs(checked, const_sizes);
                let mut elems = vec![];
                let mut i = 0;
                for _ in 0..*size {
                    let bits = &bits[i..i + ty_size];
                    elems.push(Literal::from_unwrapped_bits(
                        checked,
                        ty,
                        bits,
                        const_sizes,
                    )?);
                    i += ty_size;
                }
                Ok(Literal::Array(elems))
            }""",
   """            Type::Array(ty, size) => Literal::array_from_bits(checked, ty, *size, bits, const_sizes),"""),
  ("src/literal.rs", """    /// Encodes the literal as bits, looking up enum defs in the program.""",
   """    fn array_from_bits(
        checked: &TypedProgram,
        elem_ty: &Type,
        size: usize,
        bits: &[bool],
        const_sizes: &HashMap<String, usize>,
    ) -> Result<Self, EvalError> {
        let ty_size = elem_ty.size_in_bits_for_defs(checked, const_sizes);
        let mut elems = vec![];
        let mut i = 0;
        for _ in 0..size {
            let bits = &bits[i..i + ty_size];
            elems.push(Literal::from_unwrapped_bits(checked, elem_ty, bits, const_sizes)?);
            i += ty_size;
        }
        Ok(Literal::Array(elems))
    }

    /// Encodes the literal as bits, looking up enum defs in the program.""")], "behaviour-preserving: one array arm moved into a helper with the same Range loop")
M2("l7-array-helper-chunks", "C09", "fire L7", [
  ("src/literal.rs", """            Type::Array(ty, size) => {
                let ty_size = ty.size_in_bits_for_defs(checked, const_sizes);
                let mut elems = vec![];
                let mut i = 0;
                for _ in 0..*size {
                    let bits = &bits[i..i + ty_size];
                    elems.push(Literal::from_unwrapped_bits(
                        checked,
                        ty,
                        bits,
                        const_sizes,
                    )?);
                    i += ty_size;
                }
                Ok(Literal::Array(elems))
            }""",
   """            Type::Array(ty, size) => Literal::array_from_bits(checked, ty, *size, bits, const_sizes),"""),
  ("src/literal.rs", """    /// Encodes the literal as bits, looking up enum defs in the program.""",
   """    fn array_from_bits(
        checked: &TypedProgram,
        elem_ty: &Type,
        size: usize,
        bits: &[bool],
        const_sizes: &HashMap<String, usize>,
    ) -> Result<Self, EvalError> {
        let elem_size = elem_ty.size_in_bits_for_defs(checked, const_sizes);
        let elems = bits
            .chunks_exact(elem_size)
            .take(size)
            .map(|bits| Literal::from_unwrapped_bits(checked, elem_ty, bits, const_sizes))
            .collect::<Result<Vec<_>, _>>()?;
        Ok(Literal::Array(elems))
    }

    /// Encodes the literal as bits, looking up enum defs in the program.""")], "seed C09-d: helper decodes with chunks_exact(elem_size).take(size): zero-width elements panic")

# ---------------------------------------------------------------- more seeds of batch seven as mutants
M("g5-eval-bulk-copies-inputs", "C16", "fire G5", "src/register_circuit.rs",
  """        let mut regs = vec![false; self.max_reg_count];
""",
  """        let mut regs = vec![false; self.max_reg_count];
        let input_bits = inputs.concat();
        regs[..input_bits.len()].copy_from_slice(&input_bits);
""", "seed C16-d: registers pre-filled with all input bits (slice bound from the inputs)")
M("m5-pattern-fields-unsorted", "C08", "quiet", "src/parse.rs",
  """                        self.expect(&TokenEnum::RightBrace)?;
                        fields.sort_by(|(f1, _), (f2, _)| f1.cmp(f2));
                        if ignore_remaining_fields {""",
  """                        self.expect(&TokenEnum::RightBrace)?;
                        if ignore_remaining_fields {""", "seed C08-d on the current tree: behaviour-preserving since pattern fields are matched by name everywhere (ccbd2fe)")
M("k6-table-value-from-bits", "C12", "fire K6", "src/compile.rs",
  """                Type::Signed(_) => {
                    let n = resolve_const_expr_signed(&const_def.value, &consts_signed, bits);
                    consts_signed.insert(const_name.clone(), n);
                }""",
  """                Type::Signed(_) => {
                    let bits = env.get(const_name).unwrap();
                    let n = bits.iter().fold(0u64, |n, bit| (n << 1) | *bit as u64);
                    consts_signed.insert(const_name.clone(), n as i64);
                }""", "seed C12-d: table value folded from the bound bits without sign extension")
M("b3-first-output-from-gate-count", "C11", "fire B3", "src/convert.rs",
  """            let Some(first_output_wire) = wires_num.checked_sub(num_output_wires) else {
                return Err(FromBristolError::MalformedLine(line_str));
            };""",
  """            let Some(first_output_wire) = (input_wires_num + _gates_num).checked_sub(num_output_wires) else {
                return Err(FromBristolError::MalformedLine(line_str));
            };""", "seed C11-c (simplified): offset derived from the declared gate count instead of the wire count")
M("v8-assign-read-tree-fewer-layers", "C01", "fire V8", "src/compile.rs",
  """                            let out_of_bounds_elem = 1;
                            for mux_layer in (0..index.len()).rev() {
                                let mut muxed_array = Vec::new();
                                let s = index[mux_layer];
                                let mut i = 0;
                                while i < collection.len() {""",
  """                            let out_of_bounds_elem = 1;
                            let mux_layers = max(num_elems, 1).ilog2() as usize;
                            for mux_layer in (index.len() - mux_layers..index.len()).rev() {
                                let mut muxed_array = Vec::new();
                                let s = index[mux_layer];
                                let mut i = 0;
                                while i < collection.len() {""", "seed C01-d: the accessor copy of the read tree uses only floor(log2(n)) index bits")

# ---------------------------------------------------------------- C03 A5 (known finding): the candidate repair must be quiet
M("a5-quiet-candidate-repair", "C03", "quiet", "src/compile.rs",
  """                            let mut expr = y.clone();
                            for _ in 0..n - 1 {
                                expr = Box::new(Expr {
                                    inner: ExprEnum::Op(Op::Add, expr, y.clone()),
                                    meta,
                                    ty: ty.clone(),
                                });
                            }
                            let product = if is_neg {
                                Expr {
                                    inner: ExprEnum::UnaryOp(UnaryOp::Neg, expr),
                                    meta,
                                    ty: ty.clone(),
                                }
                                .compile(prg, env, circuit)
                            } else {
                                expr.compile(prg, env, circuit)
                            };""",
  """                            // A negative constant negates the operand first: summing up `-y` never
                            // leaves the type unless the product does.
                            let y = if is_neg {
                                Box::new(Expr {
                                    inner: ExprEnum::UnaryOp(UnaryOp::Neg, y),
                                    meta,
                                    ty: ty.clone(),
                                })
                            } else {
                                y
                            };
                            let mut expr = y.clone();
                            for _ in 0..n - 1 {
                                expr = Box::new(Expr {
                                    inner: ExprEnum::Op(Op::Add, expr, y.clone()),
                                    meta,
                                    ty: ty.clone(),
                                });
                            }
                            let product = expr.compile(prg, env, circuit);""", "the candidate repair of the known finding: operand negated first (no KNOWN-FINDING line expected either)")

# ---------------------------------------------------------------- eighth seed batch as mutants
M2("p2-join-snapshot-hoisted", "C02", "fire P2", [
  ("src/compile.rs", """            StmtEnum::JoinLoop(pattern, join_ty, (a, b), body) => {
                compile_bitonic_merge(""",
   """            StmtEnum::JoinLoop(pattern, join_ty, (a, b), body) => {
                let panic_before_branches = circuit.peek_panic().clone();
                compile_bitonic_merge("""),
  ("src/compile.rs", """                        process_binding: &mut |env, circuit, join_eq, binding| {
                            let panic_before_branches = circuit.peek_panic().clone();
""",
   """                        process_binding: &mut |env, circuit, join_eq, binding| {
""")], "seed C02-e: one snapshot of the panic record for the whole join loop")
M("g6-register-file-too-small", "C16", "fire G6", "src/register_circuit.rs",
  """        let mut regs = vec![false; self.max_reg_count];""",
  """        let mut regs = vec![false; self.max_reg_count.min(self.insts.len())];""", "seed C16-e: register file sized by the number of instructions")
M("s6-ilog2-of-array-length", "C05", "fire S6", "src/compile.rs",
  """                            let out_of_bounds_elem = 1;
                            for mux_layer in (0..index.len()).rev() {
                                let mut muxed_array = Vec::new();
                                let s = index[mux_layer];
                                let mut i = 0;
                                while i < collection.len() {""",
  """                            let out_of_bounds_elem = 1;
                            let needed_bits = min(num_elems.ilog2() as usize + 1, index.len());
                            for mux_layer in (index.len() - needed_bits..index.len()).rev() {
                                let mut muxed_array = Vec::new();
                                let s = index[mux_layer];
                                let mut i = 0;
                                while i < collection.len() {""", "seed C05-e (inlined): ilog2 of an array length that can be 0")

# ---------------------------------------------------------------- C05 quiet variants
M("s2-quiet-branches-reordered", "C05", "quiet", "src/check.rs",
  """            constrain_type(then_expr, ty)?;
            constrain_type(else_expr, ty)?;""",
  """            constrain_type(else_expr, ty)?;
            constrain_type(then_expr, ty)?;""", "behaviour-preserving (up to the order of reported errors): else branch constrained first")
M("s1-quiet-size-through-local", "C05", "quiet", "src/compile.rs",
  """                let type_size = param.ty.size_in_bits_for_defs(self, &const_sizes);
                let mut wires = Vec::with_capacity(type_size);
                for _ in 0..type_size {""",
  """                let type_size = param.ty.size_in_bits_for_defs(self, &const_sizes);
                let n_wires = type_size;
                let mut wires = Vec::with_capacity(n_wires);
                for _ in 0..n_wires {""", "behaviour-preserving: size copied into another local")
M("s6-quiet-ilog2-clamped", "C05", "quiet", "src/compile.rs",
  """                            let out_of_bounds_elem = 1;
                            for mux_layer in (0..index.len()).rev() {
                                let mut muxed_array = Vec::new();
                                let s = index[mux_layer];
                                let mut i = 0;
                                while i < collection.len() {""",
  """                            let out_of_bounds_elem = 1;
                            let _needed_bits = min(max(num_elems, 1).ilog2() as usize + 1, index.len());
                            for mux_layer in (0..index.len()).rev() {
                                let mut muxed_array = Vec::new();
                                let s = index[mux_layer];
                                let mut i = 0;
                                while i < collection.len() {""", "behaviour-preserving: a clamped logarithm that is computed but not used")

# ---------------------------------------------------------------- C01 V12 (truth tables of the primitives)
M("v12-mux-selects-other", "C01", "fire V12", "src/circuit.rs",
  """        let swap = self.push_and(x0_xor_x1, nots);
        self.push_xor(x0, swap)""",
  """        let swap = self.push_and(x0_xor_x1, nots);
        self.push_xor(x1, swap)""", "push_mux(s, a, b) returns b when s is set")
M("v12-adder-carry-and", "C01", "fire V12", "src/circuit.rs",
  """        let carry = self.push_or(wire_v, wire_w);
        (wire_s, carry)""",
  """        let carry = self.push_and(wire_v, wire_w);
        (wire_s, carry)""", "full adder never carries")
M("v12-quiet-adder-carry-xor", "C01", "quiet", "src/circuit.rs",
  """        let carry = self.push_or(wire_v, wire_w);
        (wire_s, carry)""",
  """        let carry = self.push_xor(wire_v, wire_w);
        (wire_s, carry)""", "behaviour-preserving: v and w are never both set, so xor is as good as or")
M("v12-condswap-outputs-exchanged", "C01", "fire V12", "src/circuit.rs",
  """        let x_swapped = self.push_xor(x, swap);
        let y_swapped = self.push_xor(y, swap);
        (x_swapped, y_swapped)""",
  """        let x_swapped = self.push_xor(x, swap);
        let y_swapped = self.push_xor(y, swap);
        (y_swapped, x_swapped)""", "conditional swap swaps when the selector is clear")
M("v12-eq-is-xor", "C01", "fire V12", "src/circuit.rs",
  """        let xor = self.push_xor(x, y);
        self.push_xor(xor, 1)
    }""",
  """        let xor = self.push_xor(x, y);
        self.push_xor(xor, 0)
    }""", "push_eq computes inequality")

# ---------------------------------------------------------------- ninth seed batch as mutants
M("t8-match-clauses-only-constrained", "C17", "fire T8", "src/check.rs",
  """                            if let Type::Unsigned(_) | Type::Signed(_) = ret_ty {
                                check_type(expr, &ret_ty)?;
                            } else {
                                let e = TypeErrorEnum::UnexpectedType {
                                    expected: ret_ty.clone(),
                                    actual: expr.ty.clone(),
                                };
                                errors.push(Some(TypeError::new(e, expr.meta)));
                            }""",
  """                            constrain_type(expr, &ret_ty)?;""", "seed C17-f: differing clause types only go through constrain_type (never rejects non-numeric types)")
M("t9-consts-checked-against-all", "C17", "fire T9", "src/check.rs",
  """                    &mut errors,
                    &const_defs,
                    &mut const_deps,""",
  """                    &mut errors,
                    &self.const_defs,
                    &mut const_deps,""", "seed C05-f: forward references between consts are accepted")
M("u2-cache-bounded", "C15", "fire U2", "src/circuit.rs",
  """        if self.opts.cache_gates {
            self.cache.insert(gate, gate_idx);
        }""",
  """        if self.opts.cache_gates && self.cache.len() < (1 << 16) {
            self.cache.insert(gate, gate_idx);
        }""", "seed C15-e: gates built after the cache is full are never shared")
M("e9-fncall-args-on-discarded-env", "C14", "fire E9", "src/compile.rs",
  """                    env.push();
                    let arg = arg.compile(prg, env, circuit);
                    bindings.push((param.name.clone(), arg));
                    env.pop();""",
  """                    let mut arg_env = env.clone();
                    arg_env.push();
                    let arg = arg.compile(prg, &mut arg_env, circuit);
                    bindings.push((param.name.clone(), arg));""", "seed C01-f: assignments inside argument expressions are dropped")

# ---------------------------------------------------------------- C03 A6
M("a6-adder-msb-first", "C03", "fire A6", "src/circuit.rs",
  """        // sequence of full adders:
        for i in (0..bits).rev() {
            let (s, c) = self.push_adder(x[i], y[i], carry);""",
  """        // sequence of full adders:
        for i in 0..bits {
            let (s, c) = self.push_adder(x[i], y[i], carry);""", "carry ripples from the most significant bit")
M("a6-carry-prev-after-update", "C03", "fire A6", "src/circuit.rs",
  """            sum[i] = s;
            carry_prev = carry;
            carry = c;
        }
        (sum, carry, carry_prev)""",
  """            sum[i] = s;
            carry = c;
            carry_prev = carry;
        }
        (sum, carry, carry_prev)""", "carry_prev always equals carry: signed overflow is never detected")
M("a6-signed-overflow-uses-carry", "C03", "fire A6", "src/compile.rs",
  """                        let overflow = if is_signed(ty_x) || is_signed(ty_y) {
                            circuit.push_xor(carry, carry_prev)
                        } else {
                            carry
                        };""",
  """                        let overflow = if is_signed(ty_x) || is_signed(ty_y) {
                            carry
                        } else {
                            circuit.push_xor(carry, carry_prev)
                        };""", "signed additions use the unsigned overflow rule and vice versa")
M("a6-quiet-results-renamed", "C03", "quiet", "src/circuit.rs",
  """            let (s, c) = self.push_adder(x[i], y[i], carry);
            sum[i] = s;
            carry_prev = carry;
            carry = c;""",
  """            let (bit, carry_out) = self.push_adder(x[i], y[i], carry);
            carry_prev = carry;
            sum[i] = bit;
            carry = carry_out;""", "behaviour-preserving: locals renamed, statements reordered")

# ---------------------------------------------------------------- C17 T10 / T11 (found on the unchanged tree, repaired)
REVERT("revert-const-arith-needs-number", "C17", "fire T11", "7d42b08", "pre-fix tree: `const B: bool = true + true` accepted")
REVERT("revert-array-size-consts-checked", "C17", "fire T10", "83d174a", "pre-fix tree: `[u8; N]` with undeclared / non-usize N accepted")
REVERT("revert-signed-mul-overflow", "C03", "fire A8", "31f7aba", "pre-fix tree: +2^(bits-1) products of signed multiplication do not panic")
REVERT("revert-width-adjustment", "C05", "fire S9", "b5e5554", "pre-fix tree: untyped bound numbers keep 32 wires; array reads use the result type as stride")

# ---------------------------------------------------------------- tenth seed batch as mutants
M("v8-assign-read-tree-early-break", "C01", "fire V8", "src/compile.rs",
  """                            let out_of_bounds_elem = 1;
                            for mux_layer in (0..index.len()).rev() {
                                let mut muxed_array = Vec::new();
                                let s = index[mux_layer];
                                let mut i = 0;
                                while i < collection.len() {""",
  """                            let out_of_bounds_elem = 1;
                            let mut remaining_elems = num_elems;
                            for mux_layer in (0..index.len()).rev() {
                                if remaining_elems == 1 {
                                    break;
                                }
                                remaining_elems /= 2;
                                let mut muxed_array = Vec::new();
                                let s = index[mux_layer];
                                let mut i = 0;
                                while i < collection.len() {""", "seed C14-f: the accessor copy of the read tree stops one layer early for lengths that are not a power of two")
M("t12-block-type-from-any-expr", "C17", "fire T12", "src/check.rs",
  """                if i == block.len() - 1 {
                    if let StmtEnum::Expr(expr) = &stmt.inner {
                        ret_ty = expr.ty.clone();
                    }
                }""",
  """                let _ = i;
                if let StmtEnum::Expr(expr) = &stmt.inner {
                    ret_ty = expr.ty.clone();
                }""", "seed C17-g: an expression statement in the middle of a block types the block")
M("t12-quiet-reset-each-statement", "C17", "quiet", "src/check.rs",
  """                if i == block.len() - 1 {
                    if let StmtEnum::Expr(expr) = &stmt.inner {
                        ret_ty = expr.ty.clone();
                    }
                }""",
  """                let _ = i;
                ret_ty = if let StmtEnum::Expr(expr) = &stmt.inner {
                    expr.ty.clone()
                } else {
                    Type::Tuple(vec![])
                };""", "behaviour-preserving: the block type is recomputed for every statement")
M("j7-eq-circuit-balanced-tree-drops-leftover", "C13", "fire J7", "src/circuit.rs",
  """        let mut is_eq = 1;
        for (&x, &y) in x.iter().zip(y) {
            let bits_eq = self.push_eq(x, y);
            is_eq = self.push_and(is_eq, bits_eq)
        }
        is_eq""",
  """        let mut is_eq: Vec<GateIndex> = Vec::with_capacity(x.len());
        for (&x, &y) in x.iter().zip(y) {
            is_eq.push(self.push_eq(x, y));
        }
        while is_eq.len() > 1 {
            is_eq = is_eq
                .chunks_exact(2)
                .map(|pair| self.push_and(pair[0], pair[1]))
                .collect();
        }
        is_eq.first().copied().unwrap_or(1)""", "seed C13-f: balanced AND tree drops the odd leftover of every level")
M("d1-retain-pushes-in-hash-order", "C06", "fire D1", "src/register_circuit.rs",
  """        for (gate_id, w) in self.circ.wires().enumerate() {
            let inst = match w {""",
  """        let (last_used, free_regs) = (&self.last_used, &mut self.free_regs);
        self.wire_map.retain(|wire, reg| {
            let is_live = last_used.contains_key(wire);
            if !is_live {
                free_regs.push(*reg);
            }
            is_live
        });
        for (gate_id, w) in self.circ.wires().enumerate() {
            let inst = match w {""", "seed C06-f: registers of unread inputs are recycled in HashMap order")
M("g7-input-read-by-out-register", "C16", "fire G7", "src/register_circuit.rs",
  """        let mut regs = vec![false; self.max_reg_count];

        for inst in &self.insts {""",
  """        let flat: Vec<bool> = inputs.concat();
        let mut regs = vec![false; self.max_reg_count];

        for inst in &self.insts {
            if let Op::Input(_) = inst.op {
                regs[inst.out] = flat[inst.out];
                continue;
            }""", "seed C16-f: an Input instruction reads the flat inputs at the index of its output register")
M("v12-or-shortcut-wrong-operand", "C01", "fire V12", "src/circuit.rs",
  """    pub fn push_or(&mut self, x: GateIndex, y: GateIndex) -> GateIndex {
        let xor = self.push_xor(x, y);""",
  """    pub fn push_or(&mut self, x: GateIndex, y: GateIndex) -> GateIndex {
        if let Some(&not_y) = self.negated.get(&y) {
            if let Some(&x_and_not_y) = self.get_cached(&BuilderGate::And(x, not_y)) {
                return self.push_xor(x, x_and_not_y);
            }
        }
        let xor = self.push_xor(x, y);""", "seed C04-f: cache-dependent shortcut of push_or returns x ^ (x & !y) = x & y")
M("v12-quiet-or-shortcut-correct", "C01", "quiet", "src/circuit.rs",
  """    pub fn push_or(&mut self, x: GateIndex, y: GateIndex) -> GateIndex {
        let xor = self.push_xor(x, y);""",
  """    pub fn push_or(&mut self, x: GateIndex, y: GateIndex) -> GateIndex {
        if let Some(&not_y) = self.negated.get(&y) {
            if let Some(&x_and_not_y) = self.get_cached(&BuilderGate::And(x, not_y)) {
                return self.push_xor(y, x_and_not_y);
            }
        }
        let xor = self.push_xor(x, y);""", "behaviour-preserving: the same shortcut written correctly (y ^ (x & !y) = x | y)")
M2("revert-duplicate-struct-fields", "C17", "fire T13", [
  ("src/check.rs", """                    for (i, (field_name, _)) in fields.iter().enumerate() {
                        if fields[..i].iter().any(|(f, _)| f == field_name) {
                            let e = TypeErrorEnum::DuplicateStructField(
                                name.clone(),
                                field_name.clone(),
                            );
                            errors.push(Some(TypeError::new(e, meta)));
                        }
                    }
                    for expected_field_name in struct_def.keys() {
                        if !fields.iter().any(|(f, _)| f == expected_field_name) {
                            let e = TypeErrorEnum::MissingStructField(
                                name.clone(),
                                expected_field_name.to_string(),
                            );
                            errors.push(Some(TypeError::new(e, meta)));
                        }
                    }""",
   """                    if struct_def.len() > fields.len() {
                        for expected_field_name in struct_def.keys() {
                            if !fields.iter().any(|(f, _)| f == expected_field_name) {
                                let e = TypeErrorEnum::MissingStructField(
                                    name.clone(),
                                    expected_field_name.to_string(),
                                );
                                errors.push(Some(TypeError::new(e, meta)));
                            }
                        }
                    }"""),
  ], "pre-fix form of bded4e0 (struct literals): duplicated fields accepted, missing-field check behind a length comparison")
REVERT("revert-literal-mode-nodes", "C07", "fire F12", "39a66f1", "pre-fix tree: `[1; N]` and `S {a}` given to Literal::parse reach unreachable!() in into_literal")
REVERT("revert-literal-whole-text", "C09", "fire L8", "6502ae9", "pre-fix tree: `1 2` accepted as the literal 1; `()` leaves its `)` in the stream")
M("l9-unit-tuple-keeps-paren", "C09", "fire L9", "src/parse.rs",
  """                    let tuple_end = self.expect(&TokenEnum::RightParen)?;
                    let meta = join_meta(meta, tuple_end);
                    Expr::untyped(ExprEnum::TupleLiteral(vec![]), meta)""",
  """                    Expr::untyped(ExprEnum::TupleLiteral(vec![]), meta)""", "`()` does not consume its closing parenthesis: `((), 1)` cannot be parsed")
M("l9-quiet-unit-tuple-advance", "C09", "quiet", "src/parse.rs",
  """                    let tuple_end = self.expect(&TokenEnum::RightParen)?;
                    let meta = join_meta(meta, tuple_end);
                    Expr::untyped(ExprEnum::TupleLiteral(vec![]), meta)""",
  """                    let tuple_end = self.next_matches(&TokenEnum::RightParen).unwrap_or(meta);
                    let meta = join_meta(meta, tuple_end);
                    Expr::untyped(ExprEnum::TupleLiteral(vec![]), meta)""", "behaviour-preserving: the peeked `)` is consumed with next_matches")
M("l8-trailing-token-only-when-errors", "C09", "fire L8", "src/parse.rs",
  """            match literal {
                Ok(literal) if parser.errors.is_empty() => Ok(literal),
                _ => Err(parser.errors),
            }""",
  """            match literal {
                Ok(literal) => Ok(literal),
                _ => Err(parser.errors),
            }""", "the error recorded for a trailing token does not prevent Ok")
M("l8-quiet-peek-form", "C09", "quiet", "src/parse.rs",
  """            if literal.is_ok() {
                // the whole text must be the literal
                if let Some(Token(_, meta)) = parser.tokens.next() {
                    parser.push_error(ParseErrorEnum::InvalidLiteral, meta);
                }
            }
            match literal {
                Ok(literal) if parser.errors.is_empty() => Ok(literal),
                _ => Err(parser.errors),
            }""",
  """            match (literal, parser.tokens.peek()) {
                (Ok(literal), None) if parser.errors.is_empty() => Ok(literal),
                (Ok(_), Some(Token(_, meta))) => {
                    let meta = *meta;
                    parser.push_error(ParseErrorEnum::InvalidLiteral, meta);
                    Err(parser.errors)
                }
                _ => Err(parser.errors),
            }""", "behaviour-preserving: exhaustion asked with peek inside one match")
REVERT("revert-parse-arg-const-size", "C09", "fire L10", "b3e4698", "pre-fix tree: parse_arg tests against the unresolved `[T; N]` parameter type")
M2("revert-range-bounds-gate", "C09", "fire L1 L11", [
  ("src/literal.rs", """                    && ty_max.is_none_or(|ty_max| max.saturating_sub(1) <= ty_max)""", ""),
  ("src/check.rs", """                // the last element must be representable by the element type:
                if num_ty.max().is_some_and(|max| to - 1 > max) {
                    let e = TypeErrorEnum::InvalidRange(*from, *to);
                    return Err(vec![Some(TypeError::new(e, meta))]);
                }
""", ""),
  ], "pre-fix form of 8247efd: range ends never compared with the max of the element type")
M("revert-range-num-type", "C05", "fire S12", "src/check.rs",
  """                *num_ty = lowered_as;
                if let Type::Array(actual, _) | Type::ArrayConst(actual, _) = &mut expr.ty {""",
  """                let _ = lowered_as;
                if let Type::Array(actual, _) | Type::ArrayConst(actual, _) = &mut expr.ty {""", "pre-fix form of 8247efd: `0..3` as [u8; 3] keeps the unspecified number type in the node")
M("l11-untyped-range-unchecked", "C09", "fire L11", "src/check.rs",
  """                if max.is_some_and(|max| *to > *from && *to - 1 > max) {
                    let e = TypeErrorEnum::InvalidRange(*from, *to);
                    return Err(vec![Some(TypeError::new(e, expr.meta))]);
                }
                *num_ty = lowered_as;""",
  """                let _ = max;
                *num_ty = lowered_as;""", "an untyped range takes on the element type without a range check: `253..257` as [u8; 4] wraps")
M("l1-range-gate-off-by-type", "C09", "fire L1", "src/literal.rs",
  """                    && ty_max.is_none_or(|ty_max| max.saturating_sub(1) <= ty_max)""",
  """                    && ty_max.is_none_or(|_| max.saturating_sub(1) <= u64::MAX)""", "range gate compares with a constant instead of the element type's max")
M("l1-quiet-range-gate-match", "C09", "quiet", "src/literal.rs",
  """                    && ty_max.is_none_or(|ty_max| max.saturating_sub(1) <= ty_max)""",
  """                    && match ty_max {
                        Some(ty_max) => *max == 0 || *max - 1 <= ty_max,
                        None => true,
                    }""", "behaviour-preserving: the same gate written as a match")
M("l10-set-literal-unresolved", "C09", "fire L10", "src/eval.rs",
  """            let ty = &self.main_fn.params[self.inputs.len()].ty;
            let ty = resolve_const_type(ty, self.const_sizes);
            if literal.is_of_type(self.program, &ty) {""",
  """            let ty = self.main_fn.params[self.inputs.len()].ty.clone();
            if literal.is_of_type(self.program, &ty) {""", "set_literal tests against the unresolved parameter type")
M("s12-quiet-range-width-from-type", "C05", "quiet", "src/compile.rs",
  """                let elem_bits =
                    Type::Unsigned(*num_ty).size_in_bits_for_defs(prg, circuit.const_sizes());
                let mut array = Vec::with_capacity(elem_bits * size);""",
  """                let _ = num_ty;
                let (elem_bits, _) = ty
                    .unwrap_array_size(prg, circuit.const_sizes())
                    .expect("a range is an array");
                let mut array = Vec::with_capacity(elem_bits * size);""", "behaviour-preserving: range elements sized by the element type of the expression's own type")
REVERT("revert-le-ge-clone-operands", "C14", "fire E11", "71e8dfa", "pre-fix tree: `<=` / `>=` desugared with both operands cloned")
REVERT("revert-le-ge-clone-operands-c02", "C02", "fire P7", "71e8dfa", "pre-fix tree: `<=` / `>=` desugared with both operands cloned (failure reported twice / spuriously)")
REVERT("revert-mul-operand-once", "C14", "fire E12", "18f9826", "pre-fix tree: `y * 3` clones and lowers y three times")
M("e12-operand-lowered-in-loop", "C14", "fire E12", "src/compile.rs",
  """                            let operand = y.compile(prg, env, circuit);
                            let operand_name = "<operand of mul>".to_string();""",
  """                            let mut operand = y.compile(prg, env, circuit);
                            for _ in 1..n {
                                operand = y.compile(prg, env, circuit);
                            }
                            let operand_name = "<operand of mul>".to_string();""", "the operand of the literal multiplication is lowered once per addend in a loop")
M("e11-not-equal-by-clone", "C14", "fire E11", "src/parse.rs",
  """                TokenEnum::GreaterThanEquals => {
                    let lt =
                        Expr::untyped(ExprEnum::Op(Op::LessThan, Box::new(x), Box::new(y)), meta);
                    Expr::untyped(ExprEnum::UnaryOp(UnaryOp::Not, Box::new(lt)), meta)
                }""",
  """                TokenEnum::GreaterThanEquals => {
                    let gt = Expr::untyped(
                        ExprEnum::Op(Op::GreaterThan, Box::new(x.clone()), Box::new(y.clone())),
                        meta,
                    );
                    let eq = Expr::untyped(ExprEnum::Op(Op::Eq, Box::new(x), Box::new(y)), meta);
                    Expr::untyped(ExprEnum::Op(Op::ShortCircuitOr, Box::new(gt), Box::new(eq)), meta)
                }""", "`>=` as `x > y || x == y` with cloned operands")
M("e11-quiet-clone-then-drop", "C14", "quiet", "src/parse.rs",
  """                TokenEnum::GreaterThanEquals => {
                    let lt =
                        Expr::untyped(ExprEnum::Op(Op::LessThan, Box::new(x), Box::new(y)), meta);""",
  """                TokenEnum::GreaterThanEquals => {
                    let lhs = x.clone();
                    drop(x);
                    let lt = Expr::untyped(
                        ExprEnum::Op(Op::LessThan, Box::new(lhs), Box::new(y)),
                        meta,
                    );""", "behaviour-preserving: the operand is cloned and the original dropped")
M("revert-for-iteration-scope", "C14", "fire E13", "src/compile.rs",
  """                let array = array.compile(prg, env, circuit);

                // one iteration per element, also if the elements do not have any bits:
                let mut i = 0;
                for _ in 0..size {
                    let Some(binding) = array.get(i..i + elem_in_bits) else {
                        break;
                    };
                    // the bindings of an iteration end with the iteration:
                    env.push();
                    pattern.compile(binding, prg, env, circuit);

                    for stmt in body {
                        stmt.compile(prg, env, circuit);
                    }
                    env.pop();
                    i += elem_in_bits;
                }
                vec![]""",
  """                env.push();
                let array = array.compile(prg, env, circuit);

                let mut i = 0;
                for _ in 0..size {
                    let Some(binding) = array.get(i..i + elem_in_bits) else {
                        break;
                    };
                    pattern.compile(binding, prg, env, circuit);

                    for stmt in body {
                        stmt.compile(prg, env, circuit);
                    }
                    i += elem_in_bits;
                }
                env.pop();
                vec![]""", "essence of the pre-fix tree of 3e3a2e6 (the reverse patch no longer applies after fb2511c): one scope for all iterations of a for loop")
REVERT("revert-callee-environment", "C14", "fire E14", "ead44eb", "pre-fix tree: callee bodies lowered on the caller's environment; entry parameters share the scope of the consts")
M("e14-callee-on-copy-of-caller-env", "C14", "fire E14", "src/compile.rs",
  """                let mut env = env.outermost_scope();
                env.push();
                for (var, binding) in bindings {""",
  """                let mut env = env.clone();
                env.push();
                for (var, binding) in bindings {""", "the callee is lowered on a copy of the whole caller environment: its mutations are invisible, but the caller's names still shadow the consts")
M("e13-scope-per-loop-not-iteration", "C14", "fire E13 E2", "src/compile.rs",
  """                for _ in 0..size {
                    let Some(binding) = array.get(i..i + elem_in_bits) else {
                        break;
                    };
                    // the bindings of an iteration end with the iteration:
                    env.push();""",
  """                env.push();
                for _ in 0..size {
                    let Some(binding) = array.get(i..i + elem_in_bits) else {
                        break;
                    };
                    env.pop();
                    env.push();""", "scope opened before the loop and re-opened at the start of every iteration: push / pop no longer pair up")
M("e14-quiet-params-scope-before-consts", "C14", "quiet", "src/compile.rs",
  """        env.push();
        for (param, wires) in params {
            env.let_in_current_scope(param, wires);
        }
        let output_gates = compile_block(&fn_def.body, self, &mut env, &mut circuit);
        env.pop();""",
  """        env.push();
        for (param, wires) in params.into_iter().rev() {
            env.let_in_current_scope(param, wires);
        }
        let output_gates = compile_block(&fn_def.body, self, &mut env, &mut circuit);
        env.pop();""", "behaviour-preserving: parameters bound in reverse order (distinct names)")
REVERT("revert-retype-operands", "C05", "fire S13", "b8206f8", "pre-fix tree: unify / index / shift amount / match arms re-type only the top node of an untyped expression")
REVERT("revert-retype-operands-c03", "C03", "fire A9", "b8206f8", "pre-fix tree: `a == (255 + 1)` computed at 32 bits")
M("s13-shift-amount-one-node", "C05", "fire S13", "src/check.rs",
  """                    check_type(&mut y, &Type::Unsigned(UnsignedNumType::U8))?;""",
  """                    check_or_constrain_unsigned(&mut y, UnsignedNumType::U8)?;""", "shift amount re-typed at its top node only")
M("t3-shift-amount-constrain-only", "C17", "fire T3", "src/check.rs",
  """                    check_type(&mut y, &Type::Unsigned(UnsignedNumType::U8))?;""",
  """                    constrain_type(&mut y, &Type::Unsigned(UnsignedNumType::U8))?;""", "shift amount only constrained, never compared: `a << (x == y)` is accepted")
# (the reverse patch of f62b0b4 no longer applies after 259fc4b / 98fcf78 touched the same arms; its essence is the next mutant)
REVERT("revert-compile-const-sizes", "C09", "fire L12", "a75818f", "pre-fix tree: compile() builds a GarbleProgram with empty const_sizes")
M("s14-any-width-in-collection", "C05", "fire S14", "src/check.rs",
  """                if actual == &Type::Unsigned(UnsignedNumType::Unspecified)
                    && (same_width || !in_collection)
                {""",
  """                if actual == &Type::Unsigned(UnsignedNumType::Unspecified)
                    && (same_width || !in_collection || true)
                {""", "unsigned element types of any width are taken on inside collections")
M("s14-recursion-forgets-flag", "C05", "fire S14", "src/check.rs",
  """                    for (expected, actual) in expected.iter().zip(actual.iter_mut()) {
                        overwrite_ty_if_necessary(actual, expected, true);
                    }""",
  """                    for (expected, actual) in expected.iter().zip(actual.iter_mut()) {
                        overwrite_ty_if_necessary(actual, expected, in_collection);
                    }""", "tuple fields are re-typed with the caller's flag: fields of a top-level tuple count as numbers of their own")
M("s14-quiet-width-by-helper-match", "C05", "quiet", "src/check.rs",
  """        let same_width = matches!(
            expected,
            Type::Unsigned(UnsignedNumType::U32 | UnsignedNumType::Usize)
                | Type::Signed(SignedNumType::I32)
        );""",
  """        let same_width = match expected {
            Type::Unsigned(n) => matches!(n, UnsignedNumType::Usize | UnsignedNumType::U32),
            Type::Signed(n) => matches!(n, SignedNumType::I32),
            _ => false,
        };""", "behaviour-preserving: the width test written as a match")
REVERT("revert-struct-pattern-alignment", "C17", "fire T14", "ccbd2fe", "pre-fix tree: struct pattern fields taken positionally in the exhaustiveness check")
REVERT("revert-struct-pattern-alignment-c01", "C01", "fire V16", "ccbd2fe", "pre-fix tree: non-exhaustive struct matches accepted, evaluate to 0")
M2("revert-number-pattern-range", "C17", "fire T15", [
  ("src/check.rs", """                    expect_pattern_in_range(ty, *n as i128, *n as i128, meta)?;
                    PatternEnum::NumUnsigned(*n, *suffix)""", """                    PatternEnum::NumUnsigned(*n, *suffix)"""),
  ("src/check.rs", """                    expect_pattern_in_range(ty, *n as i128, *n as i128, meta)?;
                    PatternEnum::NumSigned(*n, *suffix)""", """                    PatternEnum::NumSigned(*n, *suffix)"""),
  ], "pre-fix form of 4f8bd5a (number patterns): `256` accepted as a pattern for a u8")
M("t15-range-upper-bound-unchecked", "C17", "fire T15", "src/check.rs",
  """                    expect_pattern_in_range(ty, *from as i128, *to as i128, meta)?;
                    PatternEnum::UnsignedInclusiveRange(*from, *to, *suffix)""",
  """                    expect_pattern_in_range(ty, *from as i128, *from as i128, meta)?;
                    PatternEnum::UnsignedInclusiveRange(*from, *to, *suffix)""", "only the lower bound of an unsigned range pattern is range-checked")
M("t14-quiet-position-lookup", "C17", "quiet", "src/check.rs",
  """                    match fields.iter().find(|(name, _)| name == field_name) {
                        Some((_, pattern)) => row.push(pattern.clone()),
                        None => {""",
  """                    match fields.iter().position(|(name, _)| name == field_name) {
                        Some(i) => row.push(fields[i].1.clone()),
                        None => {""", "behaviour-preserving: pattern field looked up by position of the equal name")
REVERT("revert-type-definition-checks", "C17", "fire T16", "e5f9d9e", "pre-fix tree: duplicated struct-definition fields and self-containing types accepted")
M("t16-recursion-reported-late", "C17", "fire T16", "src/check.rs",
  """        if !recursive_type_defs.is_empty() {
            // (the checks of the function bodies would not terminate for such types)
            errors.extend(recursive_type_defs);
            let mut errors: Vec<TypeError> = errors.into_iter().flatten().collect();
            errors.sort();
            return Err(errors);
        }""",
  """        errors.extend(recursive_type_defs);""", "self-containing types are only reported at the end: the function bodies are checked first (does not terminate)")
REVERT("revert-type-definition-checks-c07", "C07", "fire F13", "e5f9d9e", "pre-fix tree: `struct S { a: S }` overflows the stack in compile")
REVERT("revert-zero-sized-arithmetic", "C05", "fire S15", "37a902e", "pre-fix tree: division by an element width, `a + b - 1` on array lengths")
M("s15-quiet-checked-sub", "C05", "quiet", "src/compile.rs",
  """    let mut joined = Vec::with_capacity((num_elems_a + num_elems_b).saturating_sub(1));""",
  """    let mut joined = Vec::with_capacity((num_elems_a + num_elems_b).checked_sub(1).unwrap_or(0));""", "behaviour-preserving: checked_sub instead of saturating_sub")
REVERT("revert-const-definition-types", "C17", "fire T17", "a70bb8d", "pre-fix tree: const types registered unresolved; external values registered with the last type seen")
M("t17-external-type-conflict-ignored", "C17", "fire T17", "src/check.rs",
  """                                Some((ty, _)) if ty != &const_def.ty => {
                                    let e =
                                        TypeErrorEnum::TypeMismatch(ty.clone(), const_def.ty.clone());
                                    errors.extend(vec![Some(TypeError::new(e, meta))]);
                                }
                                _ => {""",
  """                                _ => {""", "a second declared type for the same external value silently replaces the first")
REVERT("revert-assign-reads-late", "C14", "fire E15", "ddf9a33", "pre-fix tree: the assigned variable is read before index / value are lowered")
REVERT("revert-usize-literal-bound", "C03", "fire A10", "4fef7fd", "pre-fix tree: usize literals bounded by the host's usize::MAX")
M("a10-u16-literal-bound-too-wide", "C03", "fire A10", "src/scan.rs",
  """                                "u16" if n <= u16::MAX as u64 => {""",
  """                                "u16" if n <= u32::MAX as u64 => {""", "u16 literals up to u32::MAX pass the scanner")
REVERT("revert-array-literal-elements-compared", "C05", "fire S17", "259fc4b", "pre-fix tree: a re-typed array literal takes its first element's type")
REVERT("revert-range-signed-elements", "C05", "fire S18", "98fcf78", "pre-fix tree: the Range arm re-types only for unsigned element types")
M("s21-quiet-join-size-saturates", "C05", "quiet", "src/check.rs",
  """    // (a.size + b.size) - 1
    Ok(ConstExpr(
        ConstExprEnum::Sub(
            Box::new(ConstExpr(
                ConstExprEnum::Add(to_const_expr(a)?, to_const_expr(b)?),
                MetaInfo::default(),
            )),""",
  """    // max(a.size + b.size, 1) - 1
    let one = ConstExpr(
        ConstExprEnum::NumUnsigned(1, UnsignedNumType::Usize),
        MetaInfo::default(),
    );
    let sum = ConstExpr(
        ConstExprEnum::Add(to_const_expr(a)?, to_const_expr(b)?),
        MetaInfo::default(),
    );
    Ok(ConstExpr(
        ConstExprEnum::Sub(
            Box::new(ConstExpr(
                ConstExprEnum::Max(vec![sum, one]),
                MetaInfo::default(),
            )),""", "the repaired form of the known finding S21 (the suite pins the other spelling): S21 accepts it")
M("s21-second-synthesised-difference", "C05", "fire S21", "src/check.rs",
  """            Type::ArrayConst(_, size) => ConstExprEnum::ConstExprIdent(size.clone()),
            Type::ArrayConstExpr(_, size) => size.0.clone(),""",
  """            Type::ArrayConst(_, size) => ConstExprEnum::Sub(
                Box::new(ConstExpr(ConstExprEnum::ConstExprIdent(size.clone()), MetaInfo::default())),
                Box::new(ConstExpr(ConstExprEnum::NumUnsigned(0, UnsignedNumType::Usize), MetaInfo::default())),
            ),
            Type::ArrayConstExpr(_, size) => size.0.clone(),""", "another difference written by the checker (not the known one: different site key)")
M2("s19-const-expr-array-not-split", "C05", "fire S19", [
  ("src/compile.rs", """        let const_expr_size;
""", ""),
  ("src/compile.rs", """                Type::ArrayConstExpr(elem_ty, size) => {
                    const_expr_size = resolve_const_expr_usize(size, &const_sizes, USIZE_BITS);
                    Some((param, elem_ty, &const_expr_size))
                }
                _ => None,""", """                _ => None,""")],
  "pre-fix behaviour of fd784a1 (its REVERT no longer applies after b9081bb): a single [T; const { .. }] parameter is one party")
REVERT("revert-no-input-bits", "C05", "fire S16", "9c49737", "pre-fix tree: circuits without any input bit are built")
M("s16-quiet-any-form", "C05", "quiet", "src/compile.rs",
  """        if input_gates.iter().all(|bits| *bits == 0) {""",
  """        if !input_gates.iter().any(|bits| *bits > 0) {""", "behaviour-preserving: the same test written with any()")
REVERT("revert-output-registers-written", "C16", "fire G2", "b30cfcc", "pre-fix tree: output registers only bounds-checked")
# ---------------------------------------------------------------- eleventh seed batch as mutants
M("e17-assign-writes-every-scope", "C14", "fire E17", "src/env.rs",
  """            if let Entry::Occupied(mut e) = scope.entry(identifier.clone()) {
                e.insert(binding);
                return;
            }""",
  """            if let Entry::Occupied(mut e) = scope.entry(identifier.clone()) {
                e.insert(binding.clone());
            }""", "seed C14-k (shape): the assignment is written into every enclosing binding of the name; the panic for unknown names is unconditional, but the hit no longer returns")
M("e17-get-outermost-first", "C14", "fire E17", "src/env.rs",
  """        for bindings in self.0.iter().rev() {
            if let Some(v) = bindings.get(identifier) {""",
  """        for bindings in self.0.iter() {
            if let Some(v) = bindings.get(identifier) {""", "look-up finds the outermost binding of a name first")
M("e16-mul-by-zero-shortcut", "C14", "fire E16", "src/compile.rs",
  """                        if n == 0 {
                            continue;
                        }""",
  """                        if n == 0 {
                            return vec![0; ty.size_in_bits_for_defs(prg, circuit.const_sizes())];
                        }""", "seed C14-l: x * 0 returns zero wires without lowering x")
M("e16-quiet-zero-after-lowering", "C14", "quiet", "src/compile.rs",
  """                        if n == 0 {
                            continue;
                        }""",
  """                        if n == 0 {
                            let _ = y.compile(prg, env, circuit);
                            return vec![0; ty.size_in_bits_for_defs(prg, circuit.const_sizes())];
                        }""", "behaviour-preserving up to panics of the product: the operand is lowered, then the zero shortcut is taken")
M("s17-match-takes-first-clause-type", "C05", "fire S17", "src/check.rs",
  """                if clauses.iter().all(|(_, body)| body.ty == first.ty) {
                    expr.ty = first.ty.clone();
                }""",
  """                expr.ty = first.ty.clone();""", "seed C05-h: a re-typed match takes the type of its first clause regardless of the others")
M("s17-quiet-if-ne-form", "C05", "quiet", "src/check.rs",
  """            if then_expr.ty == else_expr.ty {
                expr.ty = then_expr.ty.clone();
            }""",
  """            if then_expr.ty != else_expr.ty {
                // the caller reports the mismatch
            } else {
                expr.ty = then_expr.ty.clone();
            }""", "behaviour-preserving: the equality written with != and else")
M("l8-ok-despite-recorded-error", "C09", "fire L8", "src/parse.rs",
  """                Ok(literal) if parser.errors.is_empty() => Ok(literal),""",
  """                Ok(literal) if parser.tokens.peek().is_none() => Ok(literal),""", "seed C09-h (shape): Ok does not depend on the recorded errors")
M("s15-parties-by-division", "C05", "fire S15 S1", "src/compile.rs",
  """            for _ in 0..*size {
                let type_size = elem_ty.size_in_bits_for_defs(self, &const_sizes);""",
  """            let total = param.ty.size_in_bits_for_defs(self, &const_sizes);
            for _ in 0..*size {
                let type_size = total / *size;""", "seed C05-i (shape): the bits of one party computed as total / number of elements")
# (REVERT of 20237f8 - importer bounds and assigned-table - no longer applies after 8985a92; its B5 half is revert-importer-fallible-tables, its B6 half the b6-* mutants)
M("b5-wire-tables-direct", "C11", "fire B5", "src/convert.rs",
  """        let (Some(mut wires_map), Some(mut is_assigned)) =
            (table(wires_num, 0), table(wires_num, false))
        else {
            return Err(FromBristolError::MalformedLine(input_line));
        };""",
  """        let _ = &input_line;
        let mut wires_map = vec![0; wires_num];
        let mut is_assigned = vec![false; wires_num];""", "pre-fix behaviour of 8985a92 (its REVERT no longer applies after 178f3c3): tables sized by the declared wires, only the non-input wires bounded by the file")
M("b5-reservation-result-dropped", "C11", "fire B5", "src/convert.rs",
  """    table.try_reserve_exact(len).ok()?;""",
  """    let _ = table.try_reserve_exact(len);""", "the helper allocates whether or not the reservation succeeded")
M("b5-quiet-reservation-tested-with-if", "C11", "quiet", "src/convert.rs",
  """    table.try_reserve_exact(len).ok()?;""",
  """    if table.try_reserve_exact(len).is_err() {
        return None;
    }""", "same helper, test written out")
M("b5-outputs-table-direct", "C11", "fire B5", "src/convert.rs",
  """            let Some(output_gates) = table(num_output_wires, 0) else {
                return Err(FromBristolError::MalformedLine(line_str));
            };
            (output_gates, first_output_wire)""",
  """            (vec![0; num_output_wires], first_output_wire)""", "outputs allocated directly again (they may be input wires: not bounded by the file)")
REVERT("revert-const-wrap-width", "C12", "fire K8", "b9081bb", "pre-fix tree: sums of const expressions keep the evaluator's width")
M("k8-add-not-reduced", "C12", "fire K8", "src/compile.rs",
  """                    $wrap(lhs.wrapping_add(rhs), bits)""",
  """                    lhs.wrapping_add(rhs)""", "only differences are reduced to the width of the type")
M("k8-width-of-the-evaluator", "C12", "fire K8", "src/compile.rs",
  """                    let n = resolve_const_expr_unsigned(&const_def.value, &consts_unsigned, bits);
                    consts_unsigned.insert(const_name.clone(), n);""",
  """                    let n = resolve_const_expr_unsigned(&const_def.value, &consts_unsigned, 64);
                    consts_unsigned.insert(const_name.clone(), n);""", "later consts see the value in 64 bits (defect 1b of the hunter)")
M("k8-quiet-sum-named", "C12", "quiet", "src/compile.rs",
  """                    $wrap(lhs.wrapping_add(rhs), bits)""",
  """                    let sum = lhs.wrapping_add(rhs);
                    $wrap(sum, bits)""", "same reduction, sum named")
M("b6-output-marked-before-inputs-looked-up", "C11", "fire B6", "src/convert.rs",
  """            for &input_wire in input_wires.iter() {
                if !is_assigned[input_wire] {
                    return Err(FromBristolError::InvalidWireIndex(input_wire));
                }
            }
            if is_assigned[output_wire] {
                return Err(FromBristolError::InvalidWireIndex(output_wire));
            }
            is_assigned[output_wire] = true;
""",
  """            if is_assigned[output_wire] {
                return Err(FromBristolError::InvalidWireIndex(output_wire));
            }
            is_assigned[output_wire] = true;
            if let Some(&unassigned) = input_wires.iter().find(|&&w| !is_assigned[w]) {
                return Err(FromBristolError::InvalidWireIndex(unassigned));
            }
""", "seed C11-i: a gate line that reads its own output is accepted")
M("b6-quiet-inputs-looked-up-with-find", "C11", "quiet", "src/convert.rs",
  """            for &input_wire in input_wires.iter() {
                if !is_assigned[input_wire] {
                    return Err(FromBristolError::InvalidWireIndex(input_wire));
                }
            }
""",
  """            if let Some(&unassigned) = input_wires.iter().find(|&&w| !is_assigned[w]) {
                return Err(FromBristolError::InvalidWireIndex(unassigned));
            }
""", "same look-ups written with find, still before the mark")
M("l14-signed-range-bound-from-unsigned-type", "C09", "fire L14", "src/literal.rs",
  """                    (Type::Signed(ty @ SignedNumType::I8), UnsignedNumType::U8)
                    | (Type::Signed(ty @ SignedNumType::I16), UnsignedNumType::U16)
                    | (Type::Signed(ty @ SignedNumType::I32), UnsignedNumType::U32)
                    | (Type::Signed(ty @ SignedNumType::I64), UnsignedNumType::U64) => {
                        ty.max().map(|ty_max| ty_max as u64)
                    }""",
  """                    (Type::Signed(SignedNumType::I8), UnsignedNumType::U8)
                    | (Type::Signed(SignedNumType::I16), UnsignedNumType::U16)
                    | (Type::Signed(SignedNumType::I32), UnsignedNumType::U32)
                    | (Type::Signed(SignedNumType::I64), UnsignedNumType::U64) => num_ty.max(),""", "seed C09-m: Range(120, 130, U8) accepted for [i8; 10]")
M("v19-mul-by-minus-one-is-identity", "C01", "fire V19", "src/compile.rs",
  """                        if n == 0 {
                            continue;
                        }
                        if n < bits {""",
  """                        if n == 0 {
                            continue;
                        }
                        if n == 1 {
                            return y.compile(prg, env, circuit);
                        }
                        if n < bits {""", "seed C01-l: the magnitude of -1 is 1, the shortcut forgets the sign")
M("b5-file-length-guard-dropped", "C11", "quiet", "src/convert.rs",
  """            if wires_num - input_wires > lines.len() {
                return Err(FromBristolError::MalformedLine(line_str));
            }
""", "", "since 8985a92 the tables are reserved fallibly: the early comparison with the length of the file only saves work")
M("b6-outputs-not-checked", "C11", "fire B6", "src/convert.rs",
  """        let mut output_wires = is_assigned.iter().enumerate().skip(first_output_wire);
        if let Some((wire, _)) = output_wires.find(|(_, is_assigned)| !**is_assigned) {
            return Err(FromBristolError::InvalidWireIndex(wire));
        }
""", "", "declared outputs that no gate assigns are accepted")
REVERT("revert-duplicate-definitions", "C17", "fire T19 T16 T15", "ea45b65", "pre-fix tree: duplicate definitions replace each other, duplicate variants and pattern suffixes unchecked")
M("t19-fn-insert-result-dropped", "C17", "fire T19", "src/parse.rs",
  """                        if fn_defs.insert(fn_def.identifier.clone(), fn_def).is_some() {
                            self.push_error(ParseErrorEnum::InvalidTopLevelDef, meta);
                        }""",
  """                        let _ = fn_defs.insert(fn_def.identifier.clone(), fn_def);""", "a second fn definition replaces the first silently")
M("t19-quiet-contains-key-form", "C17", "quiet", "src/parse.rs",
  """                        if enum_defs.insert(enum_name, enum_def).is_some() {
                            self.push_error(ParseErrorEnum::InvalidTopLevelDef, meta);
                        }""",
  """                        if let Some(_replaced) = enum_defs.insert(enum_name, enum_def) {
                            self.push_error(ParseErrorEnum::InvalidTopLevelDef, meta);
                        }""", "behaviour-preserving: the replaced definition is matched with if let")
M("t15-range-suffix-unchecked", "C17", "fire T15", "src/check.rs",
  """                    expect_pattern_suffix(ty, Type::Unsigned(*suffix), meta)?;
                    expect_pattern_in_range(ty, *from as i128, *to as i128, meta)?;""",
  """                    expect_pattern_in_range(ty, *from as i128, *to as i128, meta)?;""", "the suffix of an unsigned range pattern is not compared with the matched type")
REVERT("revert-factoring-folds", "C15", "fire U1", "b15ba9c", "pre-fix tree: the AND-factoring rewrite of push_xor emits its two gates raw")
REVERT("revert-missing-cases", "C08", "fire M2 M7", "8fd3338", "pre-fix tree: overlapping signed pieces; compound constructors wrap the whole witness stack")
M("m7-struct-drops-rest", "C08", "fire M7", "src/check.rs",
  """                                Type::Struct(struct_name.clone()),
                                meta,
                            )];
                            witness.extend(rest);""",
  """                                Type::Struct(struct_name.clone()),
                                meta,
                            )];
                            drop(rest);""", "a struct constructor drops the columns behind it when a missing case is rebuilt")
M("m2-quiet-number-covers-containing-piece", "C08", "quiet", "src/check.rs",
  """            PatternEnum::NumSigned(n, _) if n == min && n == max => vec![tail.collect()],""",
  """            PatternEnum::NumSigned(n, _) if (min..=max).contains(&n) => vec![tail.collect()],""", "seed C17-h on the current tree: behaviour-preserving since the signed pieces are disjoint (8fd3338) - a number is a split point, so the only piece that contains it is its own singleton")
# ---------------------------------------------------------------- twelfth seed batch as mutants
M("a11-shift-limit-usize-like-u64", "C03", "fire A11", "src/compile.rs",
  """                let max_filled_bits = match bits {
                    8 => 3,
                    16 => 4,
                    32 => 5,
                    64 => 6,
                    bits => panic!("Unexpected number of bits to be shifted: {bits}"),
                };""",
  """                let max_filled_bits = match ty {
                    Type::Unsigned(UnsignedNumType::U8) | Type::Signed(SignedNumType::I8) => 3,
                    Type::Unsigned(UnsignedNumType::U16) | Type::Signed(SignedNumType::I16) => 4,
                    Type::Unsigned(UnsignedNumType::U32) | Type::Signed(SignedNumType::I32) => 5,
                    Type::Unsigned(UnsignedNumType::U64 | UnsignedNumType::Usize)
                    | Type::Signed(SignedNumType::I64) => 6,
                    _ => 5,
                };""", "seed C03-g: shift limit from a per-type table that treats usize like u64")
M("a11-quiet-shift-limit-table-right", "C03", "quiet", "src/compile.rs",
  """                let max_filled_bits = match bits {
                    8 => 3,
                    16 => 4,
                    32 => 5,
                    64 => 6,
                    bits => panic!("Unexpected number of bits to be shifted: {bits}"),
                };""",
  """                let max_filled_bits = match ty {
                    Type::Unsigned(UnsignedNumType::U8) | Type::Signed(SignedNumType::I8) => 3,
                    Type::Unsigned(UnsignedNumType::U16) | Type::Signed(SignedNumType::I16) => 4,
                    Type::Unsigned(UnsignedNumType::U64) | Type::Signed(SignedNumType::I64) => 6,
                    _ => 5,
                };""", "behaviour-preserving: the same table with usize among the 32-bit types")
M("m8-sign-test-of-the-other-bound", "C08", "fire M8", "src/check.rs",
  """                if *min >= 0 && *max >= 0 && *n_min <= *min as u64 && *max as u64 <= *n_max =>""",
  """                if *max >= 0 && *n_min <= *min as u64 && *max as u64 <= *n_max =>""", "seed C08-f (one arm): only the upper bound is sign-tested before both are cast")
M("e16-fn-call-memo", "C14", "fire E16", "src/compile.rs",
  """                // the callee sees the consts and its parameters, but no variable of the caller:
                let mut env = env.outermost_scope();""",
  """                if bindings.iter().all(|(_, arg)| arg.iter().all(|w| *w <= 1)) && fn_def.params.len() > 3 {
                    return vec![0; fn_def.ty.size_in_bits_for_defs(prg, circuit.const_sizes())];
                }
                // the callee sees the consts and its parameters, but no variable of the caller:
                let mut env = env.outermost_scope();""", "seed C02-g (shape): a path through the FnCall arm returns without lowering the callee's body")
# ---------------------------------------------------------------- thirteenth seed batch as mutants
M2("e8-env-level-lookup-in-mux-envs", "C14", "fire E8", [
  ("src/circuit.rs", """        let mut muxed = Env(vec![]);
        for (a, b) in a.0.iter().zip(b.0.iter()) {""", """        let mut muxed = Env(vec![]);
        let env_a = &a;
        for (a, b) in a.0.iter().zip(b.0.iter()) {"""),
  ("src/circuit.rs", """            for (identifier, binding_a) in a {
                let binding_b = b.get(identifier).unwrap();""", """            for (identifier, _) in a {
                let binding_a = &env_a.get(identifier).unwrap();
                let binding_b = b.get(identifier).unwrap();"""),
  ], "seed C14-m (shape): the a-side binding is looked up through Env::get (innermost visible binding) instead of the scope being merged")
M("l13-repeat-starts-with-element", "C09", "fire L13", "src/literal.rs",
  """                let elem = elem.as_bits(checked, const_sizes);
                let elem_size = elem.len();
                let mut bits = vec![false; elem_size * size];
                for i in 0..*size {
                    bits[(i * elem_size)..(i * elem_size) + elem_size].copy_from_slice(&elem);
                }
                bits""",
  """                let mut bits = elem.as_bits(checked, const_sizes);
                let elem_size = bits.len();
                for _ in 1..*size {
                    bits.extend_from_within(..elem_size);
                }
                bits""", "seed C09-i: `[x; 0]` encodes one element")
M("l13-quiet-repeat-by-push-loop", "C09", "quiet", "src/literal.rs",
  """                let mut bits = vec![false; elem_size * size];
                for i in 0..*size {
                    bits[(i * elem_size)..(i * elem_size) + elem_size].copy_from_slice(&elem);
                }
                bits""",
  """                let mut bits = Vec::with_capacity(elem_size * size);
                for _ in 0..*size {
                    bits.extend_from_slice(&elem);
                }
                bits""", "behaviour-preserving: the copies are appended in a loop over 0..size")
M("t16-visited-set-shared", "C17", "fire T16", "src/check.rs",
  """        for (name, meta) in type_defs {
            let mut visited = HashSet::new();""",
  """        let mut visited = HashSet::new();
        for (name, meta) in type_defs {""", "seed C07-g: one visited-set for the walks of all definitions")
M("o9-distribution-helper-wrong-operand", "C04", "fire O9", "src/circuit.rs",
  """                    if let (Some(&x_and_y1), Some(&x_and_y2)) = (
                        self.get_cached(&BuilderGate::And(x, y1)),
                        self.get_cached(&BuilderGate::And(x, y2)),
                    ) {""",
  """                    if let (Some(&x_and_y1), Some(&x_and_y2)) = (
                        self.get_cached(&BuilderGate::And(y, y1)),
                        self.get_cached(&BuilderGate::And(y, y2)),
                    ) {""", "seed C04-g (inlined): the y-side distribution pairs the XOR inputs with y itself")


M("m5-definition-fields-unsorted", "C08", "fire M5", "src/parse.rs",
  """        let meta = join_meta(start, end);
        fields.sort_by(|(f1, _), (f2, _)| f1.cmp(f2));
        Ok((identifier, StructDef { fields, meta }))""", """        let meta = join_meta(start, end);
        Ok((identifier, StructDef { fields, meta }))""", "struct definitions keep their fields in source order: the layout of struct values is no longer the documented one")
