#!/bin/sh
# Builds the framework from files on disk only (offline): the gl-facts rustc driver, byte-compiles the rule engine.
set -e
cd "$(dirname "$0")"
export CARGO_NET_OFFLINE=true
(cd engine/gl-facts && cargo +nightly build --release --offline 2>&1 | tail -2)
test -x engine/gl-facts/target/release/gl-facts
python3 -m compileall -q glcheck
mkdir -p evidence/replay .cache
echo "setup ok"
