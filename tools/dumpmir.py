#!/usr/bin/env python3
"""Debug helper: pretty-print the MIR facts of one function.  usage: tools/dumpmir.py <fn id substring> [bb..]"""
import sys, os
sys.path.insert(0, os.path.dirname(os.path.dirname(os.path.abspath(__file__))))
from glcheck import facts, core, mir

def pl(p):
    s = "_%d" % p["l"]
    for e in p["p"]:
        k = e["k"]
        if k == "deref": s = "(*%s)" % s
        elif k == "field": s += "." + e["name"]
        elif k == "downcast": s = "(%s as %s)" % (s, e["variant"])
        elif k == "index": s += "[_%d]" % e["local"]
        else: s += "[?%s]" % k
    return s
def op(o):
    if o["k"] in ("copy", "move"): return o["k"] + " " + pl(o["place"])
    if "fn" in o: return "fn " + o["fn"]
    return "const %s" % (o.get("val") if o.get("val") is not None else o.get("repr"))
def rv(r):
    k = r["k"]
    if k == "use": return op(r["op"])
    if k == "ref": return ("&mut " if r["mut"] else "&") + pl(r["place"])
    if k == "binop": return "%s(%s, %s)" % (r["op"], op(r["l"]), op(r["r"]))
    if k == "unop": return "%s(%s)" % (r["op"], op(r["x"]))
    if k == "cast": return "%s as %s [%s]" % (op(r["op"]), r["ty"], r["kind"])
    if k == "discriminant": return "discriminant(%s)" % pl(r["place"])
    if k == "aggregate": return "%s%s(%s)" % (r.get("adt", r.get("akind")), ("::" + r["variant"]) if "variant" in r else "", ", ".join(op(x) for x in r["ops"]))
    if k == "copyforderef": return "deref_copy " + pl(r["place"])
    return k + ":" + r.get("dbg", "")[:60]
d = facts.load("default")
ctx = core.Ctx(d)
pat = sys.argv[1]
only = set(int(x) for x in sys.argv[2:])
for f in d["fns"]:
    if pat in f["id"] and "mir" in f:
        b = ctx.body(f["id"])
        print("fn", f["id"], "args", b.arg_count)
        for i, l in enumerate(b.locals):
            if l["name"]: print("  _%d %s: %s" % (i, l["name"], l["ty"]))
        for i, blk in enumerate(b.blocks):
            if only and i not in only: continue
            print(" bb%d%s:" % (i, " (cleanup)" if blk["cleanup"] else ""))
            for st in blk["stmts"]:
                if st["k"] == "assign": print("    %s = %s   // %d:%d" % (pl(st["place"]), rv(st["rv"]), st["sp"][1], st["sp"][2]))
                else: print("    ", st["k"], pl(st["place"]))
            t = blk["term"]
            if not t: continue
            if t["k"] == "call": print("    %s = %s(%s) -> bb%s   // %d:%d %s" % (pl(t["dest"]), mir.callee(t), ", ".join(op(a) for a in t["args"]), t["target"], t["sp"][1], t["sp"][2], t["sp"][5]))
            elif t["k"] == "switch": print("    switch %s %s else bb%d" % (op(t["discr"]), t["targets"], t["otherwise"]))
            elif t["k"] == "assert": print("    assert(%s == %s, %s) -> bb%s" % (op(t["cond"]), t["expected"], t["kind"], t["target"]))
            elif t["k"] == "drop": print("    drop(%s) -> bb%s" % (pl(t["place"]), t["target"]))
            else: print("    %s %s" % (t["k"], t.get("target", "")))
