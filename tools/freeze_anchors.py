#!/usr/bin/env python3
"""Freezes the signatures of the crate's functions on the current /repo tree into glcheck/anchors.json.

The rules name their anchor functions by path.  When a private function is merely renamed (or turned from a method into a free
function of the same module with the same parameter types), facts.normalize_renames() uses this table to recognise it again:
same parent path, same parameter / result types, similar set of crate-local callees, and a name that the table does not know."""
import json, os, sys
sys.path.insert(0, os.path.join(os.path.dirname(__file__), ".."))
from glcheck import facts  # noqa: E402


def callees(f):
    out = set()
    for blk in (f.get("mir") or {}).get("blocks", []):
        t = blk.get("term")
        if t and t.get("k") == "call":
            fn = t.get("func") or {}
            if fn.get("local") and fn.get("resolved"):
                out.add(fn["resolved"])
            elif fn.get("local") and fn.get("declared"):
                out.add(fn["declared"])
    return sorted(out)


def main():
    doc = facts.load(raw=True)
    callers = {}
    for f in doc["fns"]:
        for c in callees(f):
            callers.setdefault(c, set()).add(f["id"] if f["kind"] != "closure" else f["id"].split("::{closure")[0])
    table = {}
    for f in doc["fns"]:
        if f["kind"] == "closure" or f.get("from_expansion"):
            continue
        names = [l.get("name") for l in (f.get("mir") or {}).get("locals", [])[1:1 + (f.get("mir") or {}).get("arg_count", 0)]]
        table[f["id"]] = {"inputs": f.get("inputs"), "output": f.get("output"), "callees": callees(f), "file": f["sp"][0], "param_names": names, "callers": sorted(callers.get(f["id"], ())), "blocks": len((f.get("mir") or {}).get("blocks", [])),
                          "param_tys": [l["ty"] for l in (f.get("mir") or {}).get("locals", [])[1:1 + (f.get("mir") or {}).get("arg_count", 0)]]}
    adts = {}
    for a in doc["adts"]:
        if a.get("kind") == "Struct" and len(a.get("variants", [])) == 1:
            adts[a["path"]] = [[f["name"], f["ty"], bool(f.get("pub"))] for f in a["variants"][0]["fields"]]
    path = os.path.join(os.path.dirname(__file__), "..", "glcheck", "anchors.json")
    with open(path, "w") as fh:
        json.dump({"fns": table, "structs": adts}, fh, indent=0, sort_keys=True)
    print("froze %d functions and %d structs into %s" % (len(table), len(adts), os.path.normpath(path)))


if __name__ == "__main__":
    main()
