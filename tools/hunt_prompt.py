#!/usr/bin/env python3
"""Prompt for a sub-agent that hunts for GENUINE violations of a property on the unchanged tree (no source edits)."""
import json, sys
pid, wt = sys.argv[1], sys.argv[2]
extra = sys.argv[3] if len(sys.argv) > 3 else ""
for l in open('/verif/properties.jsonl'):
    p = json.loads(l)
    if p['id'] == pid:
        break
print(f"""You are testing the Rust project garble-lang (a compiler from a small Rust-like language to Boolean circuits for MPC). Your job: find inputs / programs on which the UNCHANGED code violates the semantic property below - genuine defects of the project as it is.

Work ONLY inside your private git worktree: {wt}  (a checkout of the project; build and test there with `cargo test --offline ...`; always pass --offline, there is no network). Do NOT modify anything under src/ (you are looking for defects of the code as it is), and do NOT read, list or modify anything under /verif or /repo. Never use `git stash`.

PROPERTY {p['id']}: {p['title']}
{p['statement']}
(Quantifier: {p['quantifier']['text']})
Code areas involved: {', '.join(p['anchors']['files'])}; mechanisms: {'; '.join(m['name'] for m in p['anchors']['mechanism'])}

How to work: read the relevant code for suspicious spots, then write integration tests under tests/ (e.g. tests/hunt.rs, see the existing tests for the public API: garble_lang::compile, compile_with_constants, GarbleProgram::evaluator / parse_arg / parse_output, Literal, circuit types) that enumerate or randomise inputs and compare against the expected behaviour (for arithmetic: Rust's checked_* operations; for panics: std::panic::catch_unwind around compile / check / parse; for determinism: compile twice; etc.). Prefer systematic sweeps (all i8/u8 pairs, all single-token deletions of small programs, all small array sizes, nested combinations of two language features) over single guesses. {extra}

Deliver, inside {wt}/hunt_out/ :
  - hunt.rs    : a test file with ONE #[test] per distinct defect you found, each minimal, each FAILING on the unchanged code, with a comment saying what the correct behaviour would be;
  - notes.md   : for each defect: the minimal input, observed vs expected behaviour, where in the source you believe the cause is, and how confident you are that it is a defect rather than intended behaviour. Also list things you checked that turned out fine.
Only report behaviour that really contradicts the property statement above (not style issues, not missing features). If you find nothing, say so honestly. In your final answer, list the defects in 1-2 lines each.""")
