#!/usr/bin/env python3
"""Regenerates MANIFEST.json from the rule modules (claimed) and the table below (not applicable)."""
import importlib
import json
import os
import sys

VERIF = os.path.dirname(os.path.dirname(os.path.abspath(__file__)))
sys.path.insert(0, VERIF)

ALL = ["C%02d" % i for i in range(1, 18)]

NOT_APPLICABLE = {
}
PENDING = "rules for this property are designed (DESIGN.md section 4) but not implemented yet in this framework; not claimed until they exist, pass self-validation and are quiet or triaged on the pinned tree"


def main():
    hooks = {
        "guard": "garble_lang_verif",
        "enable": "none needed: static analysis reads /repo's source as it is (no hooks, no instrumentation)",
        "baseline_off_cmd": "cd /repo && cargo test --workspace --no-fail-fast --offline",
        "source_commits": [],
        "add_only": True,
    }
    checks = []
    na = []
    served = []
    for p in ALL:
        path = os.path.join(VERIF, "glcheck", "rules", p + ".py")
        if p in NOT_APPLICABLE:
            na.append({"property_id": p, "reason": NOT_APPLICABLE[p]})
            continue
        if not os.path.exists(path):
            na.append({"property_id": p, "reason": PENDING})
            continue
        mod = importlib.import_module("glcheck.rules." + p)
        if getattr(mod, "CLAIMED", True) is False:
            na.append({"property_id": p, "reason": getattr(mod, "NA_REASON", PENDING)})
            continue
        served.append(p)
        checks.append({
            "property_id": p,
            "quick_cmd": "./check %s --tier quick" % p,
            "thorough_cmd": "./check %s --tier thorough" % p,
            "evidence_file": "/verif/evidence/%s.json" % p,
            "replay_cmd_template": "./check %s --replay {path}" % p,
            "engine": "glcheck",
            "level_claimed": {
                "category": "other",
                "text": mod.LEVEL_TEXT,
                "design_ref": "DESIGN.md section 4, " + p,
            },
            "level_note": mod.LEVEL_NOTE,
            "technique": mod.TECHNIQUE,
        })
    m = {
        "version": 1,
        "setup_cmd": "./setup.sh",
        "hooks": hooks,
        "engines": [
            {"name": "gl-facts", "path": "engine/gl-facts", "serves_properties": served,
             "kind_free_text": "rustc_private driver (nightly) run as RUSTC_WORKSPACE_WRAPPER under `cargo +nightly check --lib` of /repo's working tree: dumps resolved MIR, resolved HIR trees and the ADT table as JSON (fresh target dir per extraction, cached by content hash of the tree)"},
            {"name": "glcheck", "path": "glcheck", "serves_properties": served,
             "kind_free_text": "Python rule engine over the facts: call graph, CFG / dominators / natural loops, value origins, variant-assumption path pruning, must-pass-through; one rule module per property; known findings matched by exact key"},
        ],
        "checks": checks,
        "not_applicable": na,
        "notes": "Technique family: static analysis only (no execution of garble-lang code, no solver). Every claim is a structural necessary condition of the property; level_claimed.text says which clause is decided and which is not. Known findings: known_findings.json. Seeded changes used to validate the checks: seeded/.",
    }
    with open(os.path.join(VERIF, "MANIFEST.json"), "w") as fh:
        json.dump(m, fh, indent=1)
    print("claimed:", served)
    print("not applicable:", [x["property_id"] for x in na])


if __name__ == "__main__":
    main()
