#!/bin/sh
# runs the quick check of every claimed property on the current /repo tree; prints one line each
cd "$(dirname "$0")/.." || exit 2
rc=0
for p in $(python3 -c "import json;print(' '.join(c['property_id'] for c in json.load(open('MANIFEST.json'))['checks']))"); do
  out=$(./check $p "$@" 2>&1); r=$?
  echo "$out" | tail -1 | sed "s/^/[exit $r] /"
  [ $r -ne 0 ] && { echo "$out" | grep -E "VIOLATION|ANCHOR|ERROR" | head -5; rc=1; }
done
exit $rc
