#!/bin/sh
# usage: tools/seed_collect.sh <worktree-suffix>:<property>:<seed-name> ...   e.g. C02c:C02:C02-c
# copies the delivery out of the sub-agent's worktree, confirms it (tools/seed_verify.py), removes the worktree
cd "$(dirname "$0")/.." || exit 2
for spec in "$@"; do
  wt=$(echo "$spec" | cut -d: -f1); prop=$(echo "$spec" | cut -d: -f2); name=$(echo "$spec" | cut -d: -f3)
  if [ ! -d /tmp/wt-$wt/seed_out ]; then echo "$name: no delivery in /tmp/wt-$wt/seed_out"; continue; fi
  rm -rf /tmp/so-$wt; cp -r /tmp/wt-$wt/seed_out /tmp/so-$wt
  python3 tools/seed_verify.py "$prop" /tmp/so-$wt "$name" 2>&1 | tail -4
  git -C /repo worktree remove --force /tmp/wt-$wt 2>/dev/null
  rm -rf /tmp/so-$wt
done
