#!/usr/bin/env python3
"""For every filed seed: does its own demonstration still FAIL with the patch applied to the current /repo tree?
(A seed whose demo passes is no longer a violation - a later repair of /repo made the change harmless - and the rule written
for it may have become a false alarm.)  Dynamic, maintenance only; not part of any check.
usage: tools/seed_demo_recheck.py [names...]"""
import json, os, subprocess, sys, glob
VERIF = os.path.dirname(os.path.dirname(os.path.abspath(__file__)))
WT = "/tmp/seeddemo-wt"


def sh(cmd, cwd=None):
    r = subprocess.run(cmd, shell=True, cwd=cwd, env=dict(os.environ, CARGO_NET_OFFLINE="true", CARGO_TARGET_DIR="/tmp/seeddemo-target"),
                       stdout=subprocess.PIPE, stderr=subprocess.STDOUT, text=True)
    return r.returncode, r.stdout


names = sys.argv[1:] or sorted(d for d in os.listdir(os.path.join(VERIF, "seeded")) if os.path.exists(os.path.join(VERIF, "seeded", d, "patch.diff")))
sh("git -C /repo worktree remove --force %s" % WT)
rc, o = sh("git -C /repo worktree add -f --detach %s HEAD" % WT)
assert rc == 0, o
try:
    for name in names:
        d = os.path.join(VERIF, "seeded", name)
        meta = json.load(open(os.path.join(d, "meta.json")))
        demos = [f for f in glob.glob(os.path.join(d, "*.rs"))]
        if meta.get("obsolete"):
            print("%-8s obsolete (recorded)" % name)
            continue
        if not demos:
            print("%-8s no demo file" % name)
            continue
        patch = os.path.join(d, "patch.rebased.diff") if os.path.exists(os.path.join(d, "patch.rebased.diff")) else os.path.join(d, "patch.diff")
        sh("git checkout -- . && git clean -fdq tests src", cwd=WT)
        rc, o = sh("git apply %s || patch -p1 --fuzz=3 < %s" % (patch, patch), cwd=WT)
        if rc != 0:
            print("%-8s PATCH DOES NOT APPLY" % name)
            continue
        sh("cp %s %s/tests/seed_demo.rs" % (demos[0], WT))
        rc, o = sh("timeout 600 cargo test --offline --test seed_demo 2>&1 | tail -5", cwd=WT)
        rc2, o2 = sh("timeout 600 cargo test --offline --test seed_demo", cwd=WT)
        if "error[" in o2 or "could not compile" in o2:
            print("%-8s demo does not compile against the current tree" % name)
        elif rc2 == 0:
            print("%-8s DEMO PASSES: the seed no longer breaks the property on the current tree" % name)
        else:
            print("%-8s still failing (ok)" % name)
finally:
    sh("git -C /repo worktree remove --force %s" % WT)
