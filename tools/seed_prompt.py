#!/usr/bin/env python3
"""Prints the prompt given to an independent sub-agent that seeds a property-breaking change (only the property text
and a scratch worktree are handed over; nothing from /verif)."""
import json, sys
pid, wt = sys.argv[1], sys.argv[2]
variant = sys.argv[3] if len(sys.argv) > 3 else ""
for l in open('/verif/properties.jsonl'):
    p = json.loads(l)
    if p['id'] == pid:
        break
print(f"""You are helping to evaluate a verification framework for the Rust project garble-lang (a compiler from a small Rust-like language to Boolean circuits for MPC). Your job: produce ONE realistic code change (a "seeded defect") to garble-lang that BREAKS the semantic property below, while the crate still compiles and the project's existing test suite still passes.

Work ONLY inside your private git worktree: {wt}  (a checkout of the project; build there with `cd {wt} && cargo build --offline` / `cargo test --workspace --no-fail-fast --offline`; always pass --offline, there is no network). Do NOT read, list or modify anything under /verif or /repo, and do not look for other people's checkers: your change must be independent.

PROPERTY {p['id']}: {p['title']}
{p['statement']}
(Quantifier: {p['quantifier']['text']})
Code areas involved: {', '.join(p['anchors']['files'])}; mechanisms: {'; '.join(m['name'] for m in p['anchors']['mechanism'])}

Requirements for the change:
1. It must still compile (no new compile errors; warnings are fine) and `cargo test --workspace --no-fail-fast --offline` in the worktree must still pass completely (all tests that passed before still pass).
2. It must make the property false for some input/program/sequence - a genuine behavioural violation of the statement above, not a cosmetic change.
3. Prefer a change that needs something SPECIFIC to manifest - an unusual input, a particular combination of language features, a multi-step sequence, a boundary value, or two cooperating edits that each look fine alone - NOT something ordinary use would expose at once. It should look like a plausible refactoring slip, optimisation or "simplification" a developer might really commit. Keep it small (typically 1-15 changed lines, in src/ only; do not edit tests, Cargo.toml or docs).{(' ' + variant) if variant else ''}
4. Provide a DEMONSTRATION: a new integration test file (e.g. tests/seed_demo.rs using the public API of the crate `garble_lang`, see the existing files in tests/ for API usage) that FAILS with your change applied and PASSES on the original code. Verify both directions yourself. To switch between the original and your change do NOT use `git stash` (the stash is shared by all worktrees of this repository and other people use it): save your change with `git diff -- src > {wt}/mine.diff`, go back with `git checkout -- src`, and re-apply with `git apply {wt}/mine.diff`.

Deliver, inside {wt}/seed_out/ :
  - patch.diff   : `git diff -- src` of your change only (must apply with `git apply` to the original tree)
  - seed_demo.rs : the demonstration test (copy of tests/seed_demo.rs)
  - notes.md     : 5-10 lines: what the change is, why the existing tests do not catch it, what exactly is needed for it to manifest, and the commands you ran with their outcomes (suite passes with change; demo fails with change; demo passes without).
When done, leave the worktree with your change applied in src/ and the demo test in tests/. In your final answer, summarise the change in 3-4 lines and state the verification outcomes. If you cannot find a change that satisfies 1 and 2, say so honestly rather than delivering something that does not.""")
