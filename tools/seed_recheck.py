#!/usr/bin/env python3
"""Re-runs checks against filed seeds:  tools/seed_recheck.py [--all | <seed-name> ...] [--props C02,C14] [--update] [-v]

For every seed: scratch worktree of /repo HEAD (/tmp/seedre-wt, removed at the end), apply seeded/<name>/patch.diff,
run ./check for the seed's own property (or --props / every claimed one with --allprops) with GL_REPO pointing at it, undo.
--update rewrites detected_by / checks in meta.json."""
import json, os, re, shutil, subprocess, sys

VERIF = os.path.dirname(os.path.dirname(os.path.abspath(__file__)))
WT = "/tmp/seedre-wt"


def sh(cmd, cwd=None, env=None):
    e = dict(os.environ, CARGO_NET_OFFLINE="true")
    if env:
        e.update(env)
    r = subprocess.run(cmd, shell=True, cwd=cwd, env=e, stdout=subprocess.PIPE, stderr=subprocess.STDOUT, text=True)
    return r.returncode, r.stdout


def main():
    args = sys.argv[1:]
    update = "--update" in args
    verbose = "-v" in args
    allprops = "--allprops" in args
    props = None
    if "--props" in args:
        props = args[args.index("--props") + 1].split(",")
    names = [a for a in args if not a.startswith("-") and a not in (",".join(props or []),)]
    if "--all" in args:
        names = sorted(d for d in os.listdir(os.path.join(VERIF, "seeded")) if os.path.exists(os.path.join(VERIF, "seeded", d, "patch.diff")))
    man = json.load(open(os.path.join(VERIF, "MANIFEST.json")))
    claimed = [c["property_id"] for c in man["checks"]]
    sh("git -C /repo worktree remove --force %s" % WT)
    rc, o = sh("git -C /repo worktree add -f --detach %s HEAD" % WT)
    assert rc == 0, o
    worst = 0
    try:
        for name in names:
            d = os.path.join(VERIF, "seeded", name)
            meta = json.load(open(os.path.join(d, "meta.json")))
            if meta.get("obsolete"):
                print("%-8s obsolete on the current tree (see meta.json)" % name)
                continue
            if os.path.exists(os.path.join(d, "patch.rebased.diff")):
                rc, o = sh("git apply %s" % os.path.join(d, "patch.rebased.diff"), cwd=WT)
            else:
                rc, o = sh("git apply %s || patch -p1 --fuzz=3 < %s" % (os.path.join(d, "patch.diff"), os.path.join(d, "patch.diff")), cwd=WT)
            if rc != 0:
                print(name, "PATCH DOES NOT APPLY")
                worst = 2
                sh("git checkout -- . && git clean -fdq tests src", cwd=WT)
                continue
            run = claimed if allprops else (props or [meta["property"]])
            fired = {}
            for p in run:
                if p not in claimed:
                    continue
                rc, o = sh("python3 -m glcheck %s --tier quick --no-evidence --no-replay-files" % p, cwd=VERIF,
                           env={"GL_REPO": WT, "GL_CACHE": "/tmp/seedre-cache"})
                rules = sorted(set(re.findall(r"^  (\w+) ", o, re.M)))
                fired[p] = {"exit": rc, "rules": rules}
                if verbose or rc not in (0, 1):
                    print(o)
            own = fired.get(meta["property"], {})
            print("%-8s own=%s %s  others=%s" % (name, meta["property"], own or "-", {p: v["rules"] for p, v in fired.items() if p != meta["property"] and v["exit"] != 0}))
            if update:
                meta.setdefault("checks", {}).update(fired)
                meta["detected_by"] = [p for p, v in meta["checks"].items() if v["exit"] == 1]
                meta["detected_by_own_property"] = meta["checks"].get(meta["property"], {}).get("exit") == 1
                json.dump(meta, open(os.path.join(d, "meta.json"), "w"), indent=1)
            sh("git checkout -- . && git clean -fdq tests src", cwd=WT)
    finally:
        sh("git -C /repo worktree remove --force %s" % WT)
        shutil.rmtree("/tmp/seedre-cache", ignore_errors=True)
    return worst


if __name__ == "__main__":
    sys.exit(main())
