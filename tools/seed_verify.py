#!/usr/bin/env python3
"""Confirms a seeded change delivered by a sub-agent and files it under /verif/seeded/<name>/.

usage: tools/seed_verify.py <property> <delivery dir with patch.diff, seed_demo.rs, notes.md> <name> [--needs "..."]

In a scratch worktree of /repo HEAD (outside /repo and /verif, shared build dir, removed by --cleanup):
  1. demo passes on the unchanged tree   2. patch applies   3. demo fails with the patch
  4. the existing suite passes with the patch
then runs ./check for every claimed property against the patched scratch tree (GL_REPO) and records which fire."""
import json, os, re, shutil, subprocess, sys, time

VERIF = os.path.dirname(os.path.dirname(os.path.abspath(__file__)))
WT = "/tmp/seedverify-wt"
TARGET = "/tmp/seedverify-target"


def sh(cmd, cwd=None, env=None, timeout=1800):
    e = dict(os.environ, CARGO_NET_OFFLINE="true", CARGO_TARGET_DIR=TARGET)
    if env:
        e.update(env)
    r = subprocess.run(cmd, shell=True, cwd=cwd, env=e, stdout=subprocess.PIPE, stderr=subprocess.STDOUT, text=True, timeout=timeout)
    return r.returncode, r.stdout


def main():
    if sys.argv[1] == "--cleanup":
        sh("git -C /repo worktree remove --force %s" % WT)
        shutil.rmtree(TARGET, ignore_errors=True)
        return
    prop, src, name = sys.argv[1:4]
    needs = sys.argv[5] if len(sys.argv) > 5 and sys.argv[4] == "--needs" else ""
    out = os.path.join(VERIF, "seeded", name)
    os.makedirs(out, exist_ok=True)
    for f in ("patch.diff", "seed_demo.rs", "notes.md"):
        if os.path.exists(os.path.join(src, f)) and os.path.abspath(os.path.join(src, f)) != os.path.abspath(os.path.join(out, f)):
            shutil.copy(os.path.join(src, f), os.path.join(out, f))
    if not os.path.exists(WT):
        rc, o = sh("git -C /repo worktree add -f --detach %s HEAD" % WT)
        assert rc == 0, o
    else:
        sh("git checkout -q --detach %s && git checkout -- . && git clean -fdq tests src" % subprocess.check_output(["git", "-C", "/repo", "rev-parse", "HEAD"], text=True).strip(), cwd=WT)
    meta = {"property": prop, "name": name, "repo_head": subprocess.check_output(["git", "-C", "/repo", "rev-parse", "--short", "HEAD"], text=True).strip(), "ran": []}
    shutil.copy(os.path.join(out, "seed_demo.rs"), os.path.join(WT, "tests", "seed_demo.rs"))
    rc, o = sh("cargo test --offline --test seed_demo 2>&1 | tail -15", cwd=WT)
    base_ok = "test result: ok" in o
    meta["ran"].append({"cmd": "cargo test --offline --test seed_demo   (unchanged tree)", "passed": base_ok})
    rc, o = sh("git apply %s" % os.path.join(out, "patch.diff"), cwd=WT)
    meta["ran"].append({"cmd": "git apply patch.diff", "ok": rc == 0, "out": o[-300:]})
    if rc != 0:
        meta["confirmed"] = False
        json.dump(meta, open(os.path.join(out, "meta.json"), "w"), indent=1)
        print("PATCH DOES NOT APPLY", o)
        return 1
    rc, o = sh("cargo test --offline --test seed_demo 2>&1 | tail -25", cwd=WT)
    demo_fails = "test result: FAILED" in o or "error: test failed" in o
    compiles = "could not compile" not in o
    meta["ran"].append({"cmd": "cargo test --offline --test seed_demo   (with patch)", "failed_as_expected": demo_fails, "tail": o[-500:]})
    os.remove(os.path.join(WT, "tests", "seed_demo.rs"))
    rc, o = sh("cargo test --workspace --no-fail-fast --offline 2>&1 | grep -E '^test result|^error' ", cwd=WT)
    suite_ok = "test result: FAILED" not in o and "error: " not in o and "error[" not in o and o.count("test result: ok") >= 10
    meta["ran"].append({"cmd": "cargo test --workspace --no-fail-fast --offline   (with patch, existing suite)", "passed": suite_ok, "summary": o[-600:]})
    meta["confirmed"] = bool(base_ok and demo_fails and suite_ok and compiles)
    # our checks against the patched tree
    man = json.load(open(os.path.join(VERIF, "MANIFEST.json")))
    fired = {}
    for c in man["checks"]:
        p = c["property_id"]
        rc, o = sh("python3 -m glcheck %s --tier quick --no-evidence --no-replay-files" % p, cwd=VERIF,
                   env={"GL_REPO": WT, "GL_CACHE": "/tmp/seedverify-cache"})
        rules = sorted(set(re.findall(r"^  (\w+) ", o, re.M)))
        fired[p] = {"exit": rc, "rules": rules}
    meta["checks"] = fired
    meta["detected_by"] = [p for p, v in fired.items() if v["exit"] == 1]
    meta["detected_by_own_property"] = fired.get(prop, {}).get("exit") == 1
    if needs:
        meta["needs_to_manifest"] = needs
    json.dump(meta, open(os.path.join(out, "meta.json"), "w"), indent=1)
    sh("git checkout -- . && git clean -fdq tests src", cwd=WT)
    shutil.rmtree("/tmp/seedverify-cache", ignore_errors=True)
    print(json.dumps({k: meta[k] for k in ("name", "confirmed", "detected_by", "detected_by_own_property")}, indent=None))
    for p, v in fired.items():
        if v["exit"] != 0:
            print("   ", p, v)
    return 0


if __name__ == "__main__":
    sys.exit(main())
